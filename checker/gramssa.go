package main

import (
	"go/constant"
	"go/token"
	"go/types"
	"sort"
	"strings"

	"golang.org/x/tools/go/ssa"
)

// Token-specialised extraction of the expression grammar from the parser's SSA form.
//
// A precedence level is a parser function that first parses its left operand with some other expression
// parser and then decides, on the current token alone, whether an operator of its own follows. The level is
// run once per token T of the lexer: from function entry up to the first operand call with the token unknown,
// and from there with p.tok = T. Pure helpers of the package (matches, token predicates) are evaluated on
// constants, loads of p.tok give T until the first call that can advance the lexer, conditions that do not
// depend on the token split the path. What is recorded per token is: does a path consume it (a call that
// advances the lexer while p.tok is still T; "implicit" when that call is itself an operand parser, as in
// concatenation and `| getline`), which operand parsers run afterwards and in what order, and does control
// return to a block seen before the operator was consumed (a loop: left-associative). Helpers that take the
// already parsed operand (an ast.Expr parameter) are entered; a function that merely forwards to a helper
// with bound method values and tokens is resolved to that helper under the bindings. The shape of the source
// (switch or if chain, inverted guards, extracted predicates, extracted continuations) does not matter.

type gv struct {
	k   byte // 0 unknown, 'i' int, 'b' bool, 'a' array/slice, 'e' element pointer, 'f' function, 'n' nil, 't' &p.tok, 'g' &p.pendingGetlineLeft
	i   int64
	b   bool
	arr *[]gv
	idx int
	fn  *ssa.Function
	tup []gv // 'u': the (value, ok) pair of a comma-ok lookup
}

type gframe struct {
	fn   *ssa.Function
	vals map[ssa.Value]gv
	blk  *ssa.BasicBlock
	idx  int
	prev *ssa.BasicBlock
	call *ssa.Call // in the caller's frame, when this frame is an entered continuation helper
}

type gpath struct {
	stack    []*gframe
	started  bool // the left operand has been parsed
	left     string
	tokKnown bool
	consumed bool
	implicit bool
	rights   []string
	pre      map[*ssa.BasicBlock]bool
	post     map[*ssa.BasicBlock]bool
	steps    int
}

type goutcome struct {
	left     string
	consumed bool
	implicit bool
	rights   []string
	loop     bool
	ret      ssa.Value // what the function under analysis returns on this path
}

// returnedNodes: the node types the function returns, per path, when entered with token tok current and (when
// n >= 0) every list a parser call hands back having n elements. "" stands for a value that is not a freshly
// built node.
func (g *gssa) returnedNodes(name, tok string, n int) []string {
	fn := g.methods[name]
	t, ok := g.toks[tok]
	if fn == nil || !ok || len(fn.Blocks) == 0 {
		return nil
	}
	g.assumeNoPending, g.assumeLen = true, n
	defer func() { g.assumeNoPending, g.assumeLen = false, -1 }()
	r := &glevelRun{g: g, fn: fn, selfSig: "", prefix: true}
	bottom := &gframe{fn: fn, vals: map[ssa.Value]gv{nil: {k: 'i', i: t}}, blk: fn.Blocks[0]}
	p := &gpath{stack: []*gframe{bottom}, started: true, tokKnown: true, pre: map[*ssa.BasicBlock]bool{}, post: map[*ssa.BasicBlock]bool{}}
	r.run(p)
	set := map[string]bool{}
	for _, o := range r.outcomes {
		nodeT := ""
		if mi, ok := o.ret.(*ssa.MakeInterface); ok {
			if al, ok := mi.X.(*ssa.Alloc); ok {
				if nm := named(deref(al.Type())); nm != nil {
					nodeT = nm.Obj().Name()
				}
			}
		}
		set[nodeT] = true
	}
	var out []string
	for s := range set {
		out = append(out, s)
	}
	sort.Strings(out)
	return out
}

type gssa struct {
	c         *Ctx
	pkg       *ssa.Package
	exprT     types.Type
	tokField  int
	pendField int
	parserT   *types.Named
	advancer  map[*ssa.Function]bool
	toks      map[string]int64
	tokName   map[int64]string
	tokVals   []int64
	wrappers  map[string]string
	methods   map[string]*ssa.Function
	assumeNoPending bool
	assumeLen       int // when >= 0: len() of a list returned by a parser call, in the function under analysis
	issues    []string
	sigs      map[string]gsigRec
	tokReader map[*ssa.Function]bool
	tokenT    types.Type
	astPath   string
	// token values stored into Token-typed fields of ast nodes: "Type.Field" -> token name -> true; "?" = unknown
	stored map[string]map[string]bool
}

func newGssa(c *Ctx) *gssa {
	g := &gssa{c: c, pkg: c.ssaPkg("parser"), advancer: map[*ssa.Function]bool{}, toks: map[string]int64{}, tokName: map[int64]string{}, wrappers: map[string]string{}, methods: map[string]*ssa.Function{}, tokField: -1, pendField: -1, assumeLen: -1}
	if g.pkg == nil {
		return nil
	}
	if ap := c.pkg("internal/ast"); ap != nil {
		if o := ap.Types.Scope().Lookup("Expr"); o != nil {
			g.exprT = o.Type()
		}
	}
	nt, st := c.structType("parser", "parser")
	if nt == nil || st == nil || g.exprT == nil {
		return nil
	}
	g.parserT = nt
	for i := 0; i < st.NumFields(); i++ {
		switch st.Field(i).Name() {
		case "tok":
			g.tokField = i
		case "pendingGetlineLeft":
			g.pendField = i
		}
	}
	if g.tokField < 0 {
		return nil
	}
	for _, k := range c.constsOfType("lexer", "Token") {
		if v, ok := constant.Int64Val(k.Val()); ok {
			g.toks[k.Name()] = v
			// FIRST_FUNC / LAST_FUNC alias real tokens: the real name wins
			alias := strings.HasPrefix(k.Name(), "FIRST_") || strings.HasPrefix(k.Name(), "LAST_")
			if _, dup := g.tokName[v]; !dup || !alias {
				g.tokName[v] = k.Name()
			}
		}
	}
	for v := range g.tokName {
		g.tokVals = append(g.tokVals, v)
	}
	sort.Slice(g.tokVals, func(i, j int) bool { return g.tokVals[i] < g.tokVals[j] })
	fns := c.srcFuncs("parser")
	for _, fn := range fns {
		if fn.Signature.Recv() != nil && fn.Parent() == nil {
			g.methods[fn.Name()] = fn
		}
	}
	// advancers: store to parser.tok, call a function value, or call an advancer
	direct := func(fn *ssa.Function) bool {
		found := false
		allInstrs(fn, func(in ssa.Instruction) {
			switch x := in.(type) {
			case *ssa.Store:
				if fa, ok := x.Addr.(*ssa.FieldAddr); ok && fa.Field == g.tokField && g.isParserPtr(fa.X.Type()) {
					found = true
				}
			case ssa.CallInstruction:
				cm := x.Common()
				if !cm.IsInvoke() && cm.StaticCallee() == nil {
					if _, isBuiltin := cm.Value.(*ssa.Builtin); !isBuiltin {
						found = true // a function value: an expression parser handed in
					}
				}
			}
		})
		return found
	}
	for _, fn := range fns {
		if direct(fn) {
			g.advancer[fn] = true
		}
	}
	for changed := true; changed; {
		changed = false
		for _, fn := range fns {
			if g.advancer[fn] {
				continue
			}
			allInstrs(fn, func(in ssa.Instruction) {
				if call, ok := in.(ssa.CallInstruction); ok {
					if cal := call.Common().StaticCallee(); cal != nil && g.advancer[cal] {
						if !g.advancer[fn] {
							g.advancer[fn] = true
							changed = true
						}
					}
				}
			})
		}
	}
	// readers of the current token that cannot advance: predicates over p.tok
	g.tokReader = map[*ssa.Function]bool{}
	g.stored = map[string]map[string]bool{}
	g.astPath = modPath + "/internal/ast"
	if lp := c.pkg("lexer"); lp != nil {
		if o := lp.Types.Scope().Lookup("Token"); o != nil {
			g.tokenT = o.Type()
		}
	}
	for _, fn := range fns {
		allInstrs(fn, func(in ssa.Instruction) {
			if ld, ok := in.(*ssa.UnOp); ok && ld.Op == token.MUL {
				if fa, ok := ld.X.(*ssa.FieldAddr); ok && fa.Field == g.tokField && g.isParserPtr(fa.X.Type()) {
					g.tokReader[fn] = true
				}
			}
		})
	}
	for changed := true; changed; {
		changed = false
		for _, fn := range fns {
			if g.tokReader[fn] {
				continue
			}
			allInstrs(fn, func(in ssa.Instruction) {
				if call, ok := in.(ssa.CallInstruction); ok {
					if cal := call.Common().StaticCallee(); cal != nil && g.tokReader[cal] && !g.tokReader[fn] {
						g.tokReader[fn] = true
						changed = true
					}
				}
			})
		}
	}
	// wrappers: parameterless methods that forward to a helper with bound arguments
	var names []string
	for n := range g.methods {
		names = append(names, n)
	}
	sort.Strings(names)
	for _, n := range names {
		fn := g.methods[n]
		if len(fn.Params) != 1 {
			continue
		}
		if callee, args := g.forward(fn, map[ssa.Value]gv{}); callee != nil {
			key := g.sig(callee, args)
			if _, dup := g.wrappers[key]; !dup {
				g.wrappers[key] = n
			}
		}
	}
	return g
}

func (g *gssa) isParserPtr(t types.Type) bool {
	p, ok := t.Underlying().(*types.Pointer)
	return ok && types.Identical(p.Elem(), g.parserT)
}

func (g *gssa) returnsExpr(fn *ssa.Function) bool {
	r := fn.Signature.Results()
	return r.Len() == 1 && types.Identical(r.At(0).Type(), g.exprT)
}

func (g *gssa) hasExprParam(fn *ssa.Function) bool {
	ps := fn.Signature.Params()
	for i := 0; i < ps.Len(); i++ {
		if types.Identical(ps.At(i).Type(), g.exprT) {
			return true
		}
	}
	return false
}

// boundMethod: the method behind a bound-method closure (p.and used as a value).
func boundMethod(fn *ssa.Function) *ssa.Function {
	if !strings.Contains(fn.Synthetic, "bound method wrapper") {
		return fn
	}
	var out *ssa.Function
	allInstrs(fn, func(in ssa.Instruction) {
		if call, ok := in.(ssa.CallInstruction); ok {
			if cal := call.Common().StaticCallee(); cal != nil && out == nil {
				out = cal
			}
		}
	})
	if out == nil {
		return fn
	}
	return out
}

func (g *gssa) describe(v gv) string {
	switch v.k {
	case 'f':
		return v.fn.Name()
	case 'i':
		if n, ok := g.tokName[v.i]; ok {
			return n
		}
		return itoa(v.i)
	case 'b':
		if v.b {
			return "true"
		}
		return "false"
	case 'a':
		var es []string
		for _, e := range *v.arr {
			es = append(es, g.describe(e))
		}
		return "[" + strings.Join(es, " ") + "]"
	case 'n':
		return "nil"
	}
	return "?"
}

func (g *gssa) sig(fn *ssa.Function, args []gv) string {
	var as []string
	for i, a := range args {
		if i == 0 && fn.Signature.Recv() != nil {
			continue
		}
		as = append(as, g.describe(a))
	}
	return fn.Name() + "(" + strings.Join(as, ",") + ")"
}

// forward: fn's only job is to return callee(args...) with arguments known under vals.
func (g *gssa) forward(fn *ssa.Function, vals map[ssa.Value]gv) (*ssa.Function, []gv) {
	if len(fn.Blocks) != 1 {
		return nil, nil
	}
	b := fn.Blocks[0]
	ret, ok := b.Instrs[len(b.Instrs)-1].(*ssa.Return)
	if !ok || len(ret.Results) != 1 {
		return nil, nil
	}
	call, ok := ret.Results[0].(*ssa.Call)
	if !ok {
		return nil, nil
	}
	callee := call.Call.StaticCallee()
	if callee == nil || callee.Pkg != g.pkg || !g.advancer[callee] || len(callee.Params) < 2 {
		return nil, nil
	}
	// no other call that can advance
	for _, in := range b.Instrs {
		if c2, ok := in.(*ssa.Call); ok && c2 != call {
			if cal := c2.Call.StaticCallee(); cal == nil || g.advancer[cal] {
				return nil, nil
			}
		}
	}
	// evaluate the block's pure instructions to know the arguments
	p := &gpath{stack: []*gframe{{fn: fn, vals: vals, blk: b}}}
	for _, in := range b.Instrs {
		if in == ssa.Instruction(call) {
			break
		}
		g.pureStep(p, p.stack[0], in, 0)
	}
	var args []gv
	for _, a := range call.Call.Args {
		args = append(args, g.val(p.stack[0], a))
	}
	return callee, args
}

func (g *gssa) val(fr *gframe, v ssa.Value) gv {
	if x, ok := fr.vals[v]; ok {
		return x
	}
	switch x := v.(type) {
	case *ssa.Const:
		if x.Value == nil {
			return gv{k: 'n'}
		}
		switch x.Value.Kind() {
		case constant.Int:
			if n, ok := constant.Int64Val(x.Value); ok {
				return gv{k: 'i', i: n}
			}
		case constant.Bool:
			return gv{k: 'b', b: constant.BoolVal(x.Value)}
		}
	case *ssa.Function:
		return gv{k: 'f', fn: boundMethod(x)}
	case *ssa.MakeClosure:
		if fn, ok := x.Fn.(*ssa.Function); ok {
			return gv{k: 'f', fn: boundMethod(fn)}
		}
	}
	return gv{}
}

// pureStep evaluates one side-effect-free instruction (or a call of a pure helper) in frame fr.
func (g *gssa) pureStep(p *gpath, fr *gframe, in ssa.Instruction, depth int) {
	switch x := in.(type) {
	case *ssa.UnOp:
		a := g.val(fr, x.X)
		switch x.Op {
		case token.MUL:
			switch a.k {
			case 't':
				if p.tokKnown {
					fr.vals[x] = gv{k: 'i', i: p.tokVal()}
				}
			case 'g':
				if g.assumeNoPending {
					fr.vals[x] = gv{k: 'n'}
				}
			case 'e':
				if a.idx >= 0 && a.idx < len(*a.arr) {
					fr.vals[x] = (*a.arr)[a.idx]
				}
			}
		case token.NOT:
			if a.k == 'b' {
				fr.vals[x] = gv{k: 'b', b: !a.b}
			}
		case token.SUB:
			if a.k == 'i' {
				fr.vals[x] = gv{k: 'i', i: -a.i}
			}
		}
	case *ssa.BinOp:
		a, b := g.val(fr, x.X), g.val(fr, x.Y)
		switch {
		case a.k == 'i' && b.k == 'i':
			switch x.Op {
			case token.ADD:
				fr.vals[x] = gv{k: 'i', i: a.i + b.i}
			case token.SUB:
				fr.vals[x] = gv{k: 'i', i: a.i - b.i}
			case token.EQL, token.NEQ, token.LSS, token.LEQ, token.GTR, token.GEQ:
				fr.vals[x] = gv{k: 'b', b: cmpInt(int(a.i), x.Op, int(b.i))}
			}
		case a.k == 'b' && b.k == 'b':
			switch x.Op {
			case token.EQL:
				fr.vals[x] = gv{k: 'b', b: a.b == b.b}
			case token.NEQ:
				fr.vals[x] = gv{k: 'b', b: a.b != b.b}
			}
		case a.k == 'n' && b.k == 'n':
			switch x.Op {
			case token.EQL:
				fr.vals[x] = gv{k: 'b', b: true}
			case token.NEQ:
				fr.vals[x] = gv{k: 'b', b: false}
			}
		}
	case *ssa.FieldAddr:
		if g.isParserPtr(x.X.Type()) {
			switch x.Field {
			case g.tokField:
				fr.vals[x] = gv{k: 't'}
			case g.pendField:
				fr.vals[x] = gv{k: 'g'}
			}
		}
	case *ssa.Alloc:
		if at, ok := deref(x.Type()).Underlying().(*types.Array); ok {
			arr := make([]gv, at.Len())
			fr.vals[x] = gv{k: 'a', arr: &arr}
		}
	case *ssa.IndexAddr:
		a, i := g.val(fr, x.X), g.val(fr, x.Index)
		if a.k == 'a' && i.k == 'i' {
			fr.vals[x] = gv{k: 'e', arr: a.arr, idx: int(i.i)}
		}
	case *ssa.Slice:
		a := g.val(fr, x.X)
		if a.k == 'a' && x.Low == nil && x.High == nil {
			fr.vals[x] = a
		}
	case *ssa.Store:
		a := g.val(fr, x.Addr)
		if a.k == 'e' && a.idx >= 0 && a.idx < len(*a.arr) {
			(*a.arr)[a.idx] = g.val(fr, x.Val)
		}
	case *ssa.Lookup:
		// a package-level table that is never written (tables.go): its entries are constants of the parser
		if ld, ok := x.X.(*ssa.UnOp); ok && ld.Op == token.MUL {
			if gl, ok := ld.X.(*ssa.Global); ok {
				if ct := g.c.constTableOf(gl.Object()); ct != nil && ct.isMap && len(ct.strs) == 0 {
					if k := g.val(fr, x.Index); k.k == 'i' {
						v, found := ct.ints[k.i]
						if x.CommaOk {
							fr.vals[x] = gv{k: 'u', tup: []gv{{k: 'i', i: v}, {k: 'b', b: found}}}
						} else {
							fr.vals[x] = gv{k: 'i', i: v}
						}
					}
				}
			}
		}
	case *ssa.Extract:
		if t := g.val(fr, x.Tuple); t.k == 'u' && x.Index < len(t.tup) {
			fr.vals[x] = t.tup[x.Index]
		}
	case *ssa.Convert:
		fr.vals[x] = g.val(fr, x.X)
	case *ssa.ChangeType:
		fr.vals[x] = g.val(fr, x.X)
	case *ssa.MakeClosure:
		fr.vals[x] = g.val(fr, x)
	case *ssa.Call:
		if b, ok := x.Call.Value.(*ssa.Builtin); ok {
			if b.Name() == "len" && len(x.Call.Args) == 1 {
				if a := g.val(fr, x.Call.Args[0]); a.k == 'a' {
					fr.vals[x] = gv{k: 'i', i: int64(len(*a.arr))}
				} else if a.k == 'n' {
					fr.vals[x] = gv{k: 'i', i: 0}
				} else if a.k == 0 && g.assumeLen >= 0 && fr == p.stack[0] {
					// "the list that was parsed has this many elements": a specialisation of the run
					if _, isCall := x.Call.Args[0].(*ssa.Call); isCall {
						fr.vals[x] = gv{k: 'i', i: int64(g.assumeLen)}
					}
				}
			}
			return
		}
		callee := x.Call.StaticCallee()
		if callee == nil && !x.Call.IsInvoke() {
			// a predicate handed in as a function value
			if fv := g.val(fr, x.Call.Value); fv.k == 'f' {
				callee = fv.fn
			}
		}
		if callee == nil || callee.Pkg != g.pkg || g.advancer[callee] || len(callee.Blocks) == 0 || depth > 6 {
			return
		}
		var args []gv
		for _, a := range x.Call.Args {
			args = append(args, g.val(fr, a))
		}
		if r, ok := g.evalPure(p, callee, args, depth+1); ok {
			fr.vals[x] = r
		}
	}
}

func (p *gpath) tokVal() int64 {
	return p.stack[0].vals[nil].i // the specialised token is kept under the nil key of the bottom frame
}

// evalPure runs a helper that cannot advance the lexer on known values; ok only when every branch it takes is
// decided.
func (g *gssa) evalPure(p *gpath, fn *ssa.Function, args []gv, depth int) (gv, bool) {
	fr := &gframe{fn: fn, vals: map[ssa.Value]gv{}}
	for i, prm := range fn.Params {
		if i < len(args) {
			fr.vals[prm] = args[i]
		}
	}
	blk := fn.Blocks[0]
	var prev *ssa.BasicBlock
	for steps := 0; steps < 4000; steps++ {
		// phis
		for _, in := range blk.Instrs {
			ph, ok := in.(*ssa.Phi)
			if !ok {
				break
			}
			for i, pr := range blk.Preds {
				if pr == prev {
					fr.vals[ph] = g.val(fr, ph.Edges[i])
				}
			}
		}
		var next *ssa.BasicBlock
		for _, in := range blk.Instrs {
			switch x := in.(type) {
			case *ssa.Phi:
			case *ssa.If:
				cnd := g.val(fr, x.Cond)
				if cnd.k != 'b' {
					return gv{}, false
				}
				if cnd.b {
					next = blk.Succs[0]
				} else {
					next = blk.Succs[1]
				}
			case *ssa.Jump:
				next = blk.Succs[0]
			case *ssa.Return:
				if len(x.Results) != 1 {
					return gv{}, false
				}
				r := g.val(fr, x.Results[0])
				return r, r.k != 0
			case *ssa.Panic:
				return gv{}, false
			default:
				g.pureStep(p, fr, in, depth)
			}
		}
		if next == nil {
			return gv{}, false
		}
		prev, blk = blk, next
	}
	return gv{}, false
}

func (p *gpath) fork() *gpath {
	n := &gpath{started: p.started, left: p.left, tokKnown: p.tokKnown, consumed: p.consumed, implicit: p.implicit, steps: p.steps,
		rights: append([]string(nil), p.rights...), pre: map[*ssa.BasicBlock]bool{}, post: map[*ssa.BasicBlock]bool{}}
	for k, v := range p.pre {
		n.pre[k] = v
	}
	for k, v := range p.post {
		n.post[k] = v
	}
	arrs := map[*[]gv]*[]gv{}
	for _, fr := range p.stack {
		nf := &gframe{fn: fr.fn, blk: fr.blk, idx: fr.idx, prev: fr.prev, call: fr.call, vals: make(map[ssa.Value]gv, len(fr.vals))}
		for k, v := range fr.vals {
			if v.arr != nil {
				na, ok := arrs[v.arr]
				if !ok {
					cp := append([]gv(nil), *v.arr...)
					na = &cp
					arrs[v.arr] = na
				}
				v.arr = na
			}
			nf.vals[k] = v
		}
		n.stack = append(n.stack, nf)
	}
	return n
}

type glevelRun struct {
	g        *gssa
	fn       *ssa.Function
	selfSig  string
	outcomes []goutcome
	paths    int
	prefix   bool // prefix-operator mode: no left operand, token known from entry
	onCall   func(p *gpath, callee *ssa.Function) // observes every call of a parser function on the path
}

func (r *glevelRun) operandName(callee *ssa.Function, args []gv) string {
	s := r.g.sig(callee, args)
	if s == r.selfSig {
		return "self"
	}
	if callee.Signature.Params().Len() == 0 {
		return callee.Name()
	}
	if w, ok := r.g.wrappers[s]; ok {
		return w
	}
	// a level that exists only as "this function under these arguments" (a parameterised ladder): remembered so
	// that the chain can continue through it
	if r.g.sigs == nil {
		r.g.sigs = map[string]gsigRec{}
	}
	r.g.sigs[s] = gsigRec{callee, args}
	return s
}

type gsigRec struct {
	fn   *ssa.Function
	args []gv
}

func (r *glevelRun) enterBlock(p *gpath, fr *gframe, b *ssa.BasicBlock) bool {
	fr.prev, fr.blk, fr.idx = fr.blk, b, 0
	if fr == p.stack[0] {
		if p.consumed {
			if p.pre[b] {
				r.outcomes = append(r.outcomes, goutcome{left: p.left, consumed: true, implicit: p.implicit, rights: p.rights, loop: true})
				return false
			}
			if p.post[b] {
				return false
			}
			p.post[b] = true
		} else if p.started {
			p.pre[b] = true
		}
	}
	for _, in := range b.Instrs {
		ph, ok := in.(*ssa.Phi)
		if !ok {
			break
		}
		for i, pr := range b.Preds {
			if pr == fr.prev {
				fr.vals[ph] = r.g.val(fr, ph.Edges[i])
			}
		}
	}
	return true
}

// run explores every path from the current position of p.
func (r *glevelRun) run(p *gpath) {
	g := r.g
	for {
		p.steps++
		r.paths++
		if p.steps > 3000 || r.paths > 400000 {
			g.issues = append(g.issues, r.fn.Name()+": path budget exceeded")
			return
		}
		fr := p.stack[len(p.stack)-1]
		if fr.idx >= len(fr.blk.Instrs) {
			return
		}
		in := fr.blk.Instrs[fr.idx]
		// the token is about to be looked at but is not known (something advanced since): one path per token
		if !p.tokKnown && (p.started || r.prefix) && r.needsTok(fr, in) {
			for _, t := range g.tokVals {
				q := p.fork()
				q.tokKnown = true
				q.stack[0].vals[nil] = gv{k: 'i', i: t}
				r.run(q)
			}
			return
		}
		fr.idx++
		switch x := in.(type) {
		case *ssa.Phi:
		case *ssa.Store:
			g.pureStep(p, fr, in, 0)
			r.recordStore(fr, x)
		case *ssa.Jump:
			if !r.enterBlock(p, fr, fr.blk.Succs[0]) {
				return
			}
		case *ssa.If:
			cnd := g.val(fr, x.Cond)
			if cnd.k == 'b' {
				s := fr.blk.Succs[1]
				if cnd.b {
					s = fr.blk.Succs[0]
				}
				if !r.enterBlock(p, fr, s) {
					return
				}
				continue
			}
			q := p.fork()
			qfr := q.stack[len(q.stack)-1]
			if r.enterBlock(q, qfr, qfr.blk.Succs[1]) {
				r.run(q)
			}
			if !r.enterBlock(p, fr, fr.blk.Succs[0]) {
				return
			}
		case *ssa.Panic:
			return
		case *ssa.Return:
			if len(p.stack) == 1 {
				if p.started {
					o := goutcome{left: p.left, consumed: p.consumed, implicit: p.implicit, rights: p.rights}
					if len(x.Results) == 1 {
						o.ret = x.Results[0]
					}
					r.outcomes = append(r.outcomes, o)
				}
				return
			}
			// back from an entered continuation helper
			p.stack = p.stack[:len(p.stack)-1]
		case *ssa.Call:
			if !r.call(p, fr, x) {
				return
			}
		default:
			g.pureStep(p, fr, in, 0)
		}
	}
}

func (r *glevelRun) needsTok(fr *gframe, in ssa.Instruction) bool {
	g := r.g
	switch x := in.(type) {
	case *ssa.UnOp:
		return x.Op == token.MUL && g.val(fr, x.X).k == 't'
	case *ssa.Call:
		if cal := x.Call.StaticCallee(); cal != nil && cal.Pkg == g.pkg && !g.advancer[cal] && g.tokReader[cal] {
			return true
		}
	}
	return false
}

// recordStore: a token value stored into a Token-typed field of an ast node.
func (r *glevelRun) recordStore(fr *gframe, st *ssa.Store) {
	g := r.g
	fa, ok := st.Addr.(*ssa.FieldAddr)
	if !ok || g.tokenT == nil || !types.Identical(st.Val.Type(), g.tokenT) {
		return
	}
	f, _ := fieldOfAddr(fa)
	nm := named(deref(fa.X.Type()))
	if f == nil || nm == nil || nm.Obj().Pkg() == nil || nm.Obj().Pkg().Path() != g.astPath {
		return
	}
	key := nm.Obj().Name() + "." + f.Name()
	if g.stored[key] == nil {
		g.stored[key] = map[string]bool{}
	}
	if v := g.val(fr, st.Val); v.k == 'i' {
		if n, ok := g.tokName[v.i]; ok {
			g.stored[key][n] = true
			return
		}
	}
	// copied from the same field of an existing node: adds no new value
	if ld, ok := st.Val.(*ssa.UnOp); ok && ld.Op == token.MUL {
		if fa2, ok := ld.X.(*ssa.FieldAddr); ok {
			f2, _ := fieldOfAddr(fa2)
			nm2 := named(deref(fa2.X.Type()))
			if f2 != nil && nm2 != nil && nm2.Obj() == nm.Obj() && f2.Name() == f.Name() {
				return
			}
		}
	}
	g.stored[key]["?"] = true
}

// buildsNode: the result type comes from package ast (a node, or the Expr / Stmt interfaces).
func (g *gssa) buildsNode(fn *ssa.Function) bool {
	rs := fn.Signature.Results()
	for i := 0; i < rs.Len(); i++ {
		if nm := named(deref(rs.At(i).Type())); nm != nil && nm.Obj().Pkg() != nil && nm.Obj().Pkg().Path() == g.astPath {
			return true
		}
	}
	return false
}

func (r *glevelRun) call(p *gpath, fr *gframe, x *ssa.Call) bool {
	g := r.g
	if _, ok := x.Call.Value.(*ssa.Builtin); ok || x.Call.IsInvoke() {
		g.pureStep(p, fr, x, 0)
		return true
	}
	callee := x.Call.StaticCallee()
	if callee == nil {
		if v := g.val(fr, x.Call.Value); v.k == 'f' {
			callee = v.fn
		}
	}
	var args []gv
	if callee != nil && callee.Signature.Recv() != nil && x.Call.StaticCallee() == nil {
		args = append(args, gv{}) // receiver bound inside the method value
	}
	for _, a := range x.Call.Args {
		args = append(args, g.val(fr, a))
	}
	if callee == nil {
		// an unknown function value: it may parse anything
		r.operand(p, []string{"?"})
		return true
	}
	if callee.Pkg != g.pkg {
		return true // outside the parser: cannot advance its lexer position
	}
	if r.onCall != nil {
		r.onCall(p, callee)
	}
	if !g.advancer[callee] {
		if g.buildsNode(callee) && len(callee.Blocks) > 0 && len(p.stack) < 5 {
			// a helper that builds a node without touching the lexer (makeAssign): entered, so that what it
			// stores into the node is seen under this path's token
			nf := &gframe{fn: callee, vals: map[ssa.Value]gv{}, call: x, blk: callee.Blocks[0]}
			for i, prm := range callee.Params {
				if i < len(args) {
					nf.vals[prm] = args[i]
				}
			}
			p.stack = append(p.stack, nf)
			return true
		}
		g.pureStep(p, fr, x, 0)
		return true
	}
	// operand parsers handed in as arguments
	var handed []string
	for i, a := range args {
		if a.k == 'f' && g.returnsExpr(a.fn) && !(i == 0 && callee.Signature.Recv() != nil) {
			handed = append(handed, r.operandName(a.fn, nil))
		}
	}
	switch {
	case g.returnsExpr(callee) && g.hasExprParam(callee) && len(callee.Blocks) > 0 && len(p.stack) < 5:
		// a continuation that takes the operand parsed so far: entered
		nf := &gframe{fn: callee, vals: map[ssa.Value]gv{}, call: x}
		for i, prm := range callee.Params {
			if i < len(args) {
				nf.vals[prm] = args[i]
			}
		}
		p.stack = append(p.stack, nf)
		nf.blk = callee.Blocks[0]
		return true
	case len(handed) > 0 && !sameSig(g, callee, args, r.selfSig):
		r.operand(p, handed)
	case g.returnsExpr(callee):
		r.operand(p, []string{r.operandName(callee, args)})
	default:
		// advances the lexer without parsing an operand: the operator token (and what must follow it)
		if p.started || r.prefix {
			if !p.consumed {
				p.consumed, p.implicit = true, false
			}
		}
		p.tokKnown = false
	}
	return true
}

func sameSig(g *gssa, callee *ssa.Function, args []gv, self string) bool {
	return g.sig(callee, args) == self
}

func (r *glevelRun) operand(p *gpath, names []string) {
	if !p.started && !r.prefix {
		p.started = true
		p.left = names[0]
		p.tokKnown = true
		p.pre[p.stack[0].blk] = true
		return
	}
	if !p.consumed {
		p.consumed, p.implicit = true, true
	}
	p.rights = append(p.rights, names...)
	p.tokKnown = false
}

// level analyses method `name` of the parser as a precedence level.
func (g *gssa) level(name string) *gLevel {
	lv := &gLevel{fn: name}
	fn := g.methods[name]
	vals := map[ssa.Value]gv{}
	var topArgs []gv
	if rec, ok := g.sigs[name]; ok && fn == nil {
		// "function(arguments)": a level met as an operand of another level
		fn = rec.fn
		topArgs = rec.args
		for i, prm := range fn.Params {
			if i < len(rec.args) {
				vals[prm] = rec.args[i]
			}
		}
	}
	if fn == nil || len(fn.Blocks) == 0 {
		lv.issues = append(lv.issues, "function "+name+" not found")
		return lv
	}
	// resolve forwarding wrappers
	for depth := 0; depth < 4; depth++ {
		callee, args := g.forward(fn, vals)
		if callee == nil {
			break
		}
		fn = callee
		topArgs = args
		vals = map[ssa.Value]gv{}
		for i, prm := range fn.Params {
			if i < len(args) {
				vals[prm] = args[i]
			}
		}
	}
	selfSig := fn.Name() + "()"
	if topArgs != nil {
		selfSig = g.sig(fn, topArgs)
	} else if fn.Signature.Params().Len() == 0 {
		selfSig = g.sig(fn, []gv{{}})
	}
	type agg struct {
		implicit bool
		seqs     map[string]bool
		loop     bool
	}
	perTok := map[int64]*agg{}
	lefts := map[string]bool{}
	for _, t := range g.tokVals {
		r := &glevelRun{g: g, fn: fn, selfSig: selfSig}
		bottom := &gframe{fn: fn, vals: map[ssa.Value]gv{nil: {k: 'i', i: t}}, blk: fn.Blocks[0]}
		for k, v := range vals {
			bottom.vals[k] = v
		}
		p := &gpath{stack: []*gframe{bottom}, pre: map[*ssa.BasicBlock]bool{}, post: map[*ssa.BasicBlock]bool{}}
		r.run(p)
		for _, o := range r.outcomes {
			lefts[o.left] = true
			if !o.consumed {
				continue
			}
			a := perTok[t]
			if a == nil {
				a = &agg{seqs: map[string]bool{}, implicit: true}
				perTok[t] = a
			}
			if !o.implicit {
				a.implicit = false
			}
			a.seqs[strings.Join(o.rights, " ")] = true
			if o.loop {
				a.loop = true
			}
		}
	}
	if len(lefts) != 1 {
		var ls []string
		for l := range lefts {
			ls = append(ls, l)
		}
		sort.Strings(ls)
		lv.issues = append(lv.issues, "no single left-operand parser (found "+strings.Join(ls, ",")+")")
		return lv
	}
	for l := range lefts {
		lv.left = l
	}
	allImplicit := len(perTok) > 0
	seqs := map[string]bool{}
	loop := false
	for t, a := range perTok {
		lv.ops = append(lv.ops, g.tokName[t])
		if !a.implicit {
			allImplicit = false
		}
		for s := range a.seqs {
			seqs[s] = true
		}
		if a.loop {
			loop = true
		}
	}
	sort.Strings(lv.ops)
	if allImplicit {
		// an operator that has no token of its own: named by the constant the node is built with
		if op := g.constOpStored(fn); op != "" {
			lv.ops = []string{op}
		}
	}
	var ss []string
	for s := range seqs {
		ss = append(ss, s)
	}
	sort.Strings(ss)
	// paths may parse fewer operands (one of them taken as a literal token, e.g. a regex after ~): the longest
	// sequence describes the level; two paths that disagree on an operand are an issue
	longest := ""
	for _, s := range ss {
		if len(s) > len(longest) {
			longest = s
		}
	}
	for _, s := range ss {
		if s != "" && !strings.HasPrefix(longest+" ", s+" ") {
			lv.issues = append(lv.issues, "the operands parsed after the operator differ by path: "+strings.Join(ss, " | "))
			break
		}
	}
	if longest != "" {
		lv.rights = strings.Split(longest, " ")
	}
	switch {
	case len(lv.ops) == 0:
		lv.assoc = ""
	case loop:
		lv.assoc = "left"
	case containsStr(lv.rights, "self"):
		lv.assoc = "right"
	default:
		lv.assoc = "none"
	}
	return lv
}

// constOpStored: the token constant stored into a field named Op of a node built in fn.
func (g *gssa) constOpStored(fn *ssa.Function) string {
	out := ""
	allInstrs(fn, func(in ssa.Instruction) {
		st, ok := in.(*ssa.Store)
		if !ok {
			return
		}
		fa, ok := st.Addr.(*ssa.FieldAddr)
		if !ok {
			return
		}
		if f, _ := fieldOfAddr(fa); f == nil || f.Name() != "Op" {
			return
		}
		if k, ok := st.Val.(*ssa.Const); ok && k.Value != nil {
			if n, ok := constant.Int64Val(k.Value); ok {
				out = g.tokName[n]
			}
		}
	})
	return out
}

// prefixOperands: what the function parses, per token, when entered with that token current and no
// `| getline` pending: the operand parsers called, in order, on the paths that do not end in an error.
func (g *gssa) prefixOperands(name string) map[string][][]string {
	out := map[string][][]string{}
	fn := g.methods[name]
	if fn == nil || len(fn.Blocks) == 0 {
		return out
	}
	g.assumeNoPending = true
	defer func() { g.assumeNoPending = false }()
	for _, t := range g.tokVals {
		r := &glevelRun{g: g, fn: fn, selfSig: "", prefix: true}
		bottom := &gframe{fn: fn, vals: map[ssa.Value]gv{nil: {k: 'i', i: t}}, blk: fn.Blocks[0]}
		p := &gpath{stack: []*gframe{bottom}, started: true, tokKnown: true, pre: map[*ssa.BasicBlock]bool{}, post: map[*ssa.BasicBlock]bool{}}
		r.run(p)
		distinct := map[string]bool{}
		for _, o := range r.outcomes {
			distinct[strings.Join(o.rights, " ")] = true
		}
		var ss []string
		for s := range distinct {
			ss = append(ss, s)
		}
		sort.Strings(ss)
		for _, s := range ss {
			if s == "" {
				out[g.tokName[t]] = append(out[g.tokName[t]], nil)
			} else {
				out[g.tokName[t]] = append(out[g.tokName[t]], strings.Split(s, " "))
			}
		}
	}
	return out
}

// grammarChain: the precedence levels from the entry point down to (not including) the primary level.
func (g *gssa) chain(entry, primary string) []*gLevel {
	var chain []*gLevel
	cur := entry
	seen := map[string]bool{}
	for cur != "" && !seen[cur] && len(chain) < 24 && cur != primary {
		seen[cur] = true
		lv := g.level(cur)
		chain = append(chain, lv)
		cur = lv.left
	}
	return chain
}

// hasTokenStore: fn stores into a Token-typed field of an ast node.
func (g *gssa) hasTokenStore(fn *ssa.Function) bool {
	found := false
	allInstrs(fn, func(in ssa.Instruction) {
		st, ok := in.(*ssa.Store)
		if !ok || g.tokenT == nil || !types.Identical(st.Val.Type(), g.tokenT) {
			return
		}
		if fa, ok := st.Addr.(*ssa.FieldAddr); ok {
			if nm := named(deref(fa.X.Type())); nm != nil && nm.Obj().Pkg() != nil && nm.Obj().Pkg().Path() == g.astPath {
				found = true
			}
		}
	})
	return found
}

// tokenDomains: for every Token-typed field of an ast node that package parser stores into, the token values
// that can be stored ("?" when some path stores a value the analysis does not know). Every function that
// builds such a node is run per current token: parameterless ones from their entry, parametrised ones under
// the argument bindings of each of their call sites; helpers that take the operand parsed so far, and pure
// node builders, are covered where they are entered.
func (g *gssa) tokenDomains() map[string][]string {
	fns := g.c.srcFuncs("parser")
	// which functions matter: they store a token into a node themselves, or enter a helper that does
	entered := func(fn *ssa.Function) bool {
		if g.advancer[fn] {
			return g.returnsExpr(fn) && g.hasExprParam(fn)
		}
		return g.buildsNode(fn)
	}
	matters := map[*ssa.Function]bool{}
	for _, fn := range fns {
		if g.hasTokenStore(fn) {
			matters[fn] = true
		}
	}
	for changed := true; changed; {
		changed = false
		for _, fn := range fns {
			if matters[fn] {
				continue
			}
			allInstrs(fn, func(in ssa.Instruction) {
				if call, ok := in.(ssa.CallInstruction); ok {
					if cal := call.Common().StaticCallee(); cal != nil && matters[cal] && entered(cal) && !matters[fn] {
						matters[fn] = true
						changed = true
					}
				}
			})
		}
	}
	runUnder := func(fn *ssa.Function, vals map[ssa.Value]gv) {
		g.assumeNoPending = true
		defer func() { g.assumeNoPending = false }()
		for _, t := range g.tokVals {
			r := &glevelRun{g: g, fn: fn, selfSig: "", prefix: true}
			bottom := &gframe{fn: fn, vals: map[ssa.Value]gv{nil: {k: 'i', i: t}}, blk: fn.Blocks[0]}
			for k, v := range vals {
				bottom.vals[k] = v
			}
			p := &gpath{stack: []*gframe{bottom}, started: true, tokKnown: true, pre: map[*ssa.BasicBlock]bool{}, post: map[*ssa.BasicBlock]bool{}}
			r.run(p)
		}
	}
	done := map[string]bool{}
	for _, fn := range fns {
		if !matters[fn] || entered(fn) || len(fn.Blocks) == 0 || fn.Parent() != nil {
			continue
		}
		nParams := len(fn.Params)
		if fn.Signature.Recv() != nil {
			nParams--
		}
		if nParams == 0 {
			runUnder(fn, nil)
			continue
		}
		// parametrised: under the bindings of each call site
		sites := 0
		for _, caller := range fns {
			for _, b := range caller.Blocks {
				for ci, in := range b.Instrs {
					call, ok := in.(*ssa.Call)
					if !ok || call.Call.StaticCallee() != fn {
						continue
					}
					sites++
					p := &gpath{stack: []*gframe{{fn: caller, vals: map[ssa.Value]gv{}, blk: b}}}
					for _, pin := range b.Instrs[:ci] {
						if _, isCall := pin.(*ssa.Call); isCall {
							continue
						}
						g.pureStep(p, p.stack[0], pin, 0)
					}
					vals := map[ssa.Value]gv{}
					var args []gv
					for i, a := range call.Call.Args {
						v := g.val(p.stack[0], a)
						args = append(args, v)
						if i < len(fn.Params) {
							vals[fn.Params[i]] = v
						}
					}
					key := g.sig(fn, args)
					if done[key] {
						continue
					}
					done[key] = true
					runUnder(fn, vals)
				}
			}
		}
		if sites == 0 {
			runUnder(fn, nil)
		}
	}
	out := map[string][]string{}
	for key, set := range g.stored {
		var ts []string
		for t := range set {
			ts = append(ts, t)
		}
		sort.Strings(ts)
		out[key] = ts
	}
	return out
}
