package main

import (
	"go/ast"
	"go/constant"
	"go/token"
	"go/types"
	"sort"
	"strconv"
	"strings"

	"golang.org/x/tools/go/ast/astutil"
)

// R-FUSE (C20): token-junction analysis of the printer.
//
// Every String method of package ast is interpreted abstractly: a string value is
// described by the set of characters it can start with, the set it can end with and
// whether it can be empty. Sub-expression texts are described by the FIRST/LAST sets
// of the node types that can stand there (a fixpoint over all String methods, taking
// parenthesize's precedence test into account); operator texts by the token texts
// the parser can put in that field. Every concatenation point ("junction") is then
// compared with the lexer's own table of multi-character tokens: a junction whose
// (last, first) characters could be read as one longer token - or as one longer
// name/number - is a place where printed text is not read back as the tokens that
// were printed.

func init() {
	register("R-FUSE", "token junctions: no concatenation point in the printers of package ast can place, without separating white space, a character that ends an operator/operand text before a character that starts the next one such that the lexer's scan switch reads the two as (part of) one longer token, or two name/number texts as one; sets of possible first/last characters are computed for every node type as a fixpoint over all String methods, with parenthesize's precedence comparison, the operator domains the parser can construct per node field and the lvalue-only fields taken into account; a strings.HasPrefix(value, op) test that inserts a space is understood as excluding equal first characters", ruleFuse)
}

type cset map[byte]bool

func (s cset) add(o cset) bool {
	ch := false
	for k := range o {
		if !s[k] {
			s[k] = true
			ch = true
		}
	}
	return ch
}
func (s cset) str() string {
	var ks []string
	for k := range s {
		ks = append(ks, string(k))
	}
	sort.Strings(ks)
	return strings.Join(ks, "")
}
func normCh(b byte) byte {
	switch {
	case b >= 'a' && b <= 'z', b >= 'A' && b <= 'Z', b == '_':
		return 'a'
	case b >= '0' && b <= '9':
		return '0'
	}
	return b
}

type sabs struct {
	heads, tails cset
	mayEmpty     bool
	kind         string // "lit", "tok", "expr", "name", "opaque", "mixed"
	src          string
	obj          types.Object // when the value is a plain local/param identifier
	singleChar   bool         // tok: every text in the domain has one character
	lastKind     string       // kind of the last atomic part of a concatenation
}

func lastKindOf(a *sabs) string {
	if a.lastKind != "" {
		return a.lastKind
	}
	return a.kind
}

func cloneVars(m map[types.Object]*sabs) map[types.Object]*sabs {
	out := make(map[types.Object]*sabs, len(m))
	for k, v := range m {
		out[k] = v
	}
	return out
}

// mergeVars joins two variable states; a variable missing on one side keeps the other's value joined with nothing.
func mergeVars(a, b map[types.Object]*sabs) map[types.Object]*sabs {
	out := map[types.Object]*sabs{}
	for k, v := range a {
		if w, ok := b[k]; ok {
			if v == w {
				out[k] = v
			} else {
				out[k] = joinAbs(v, w)
			}
		} else {
			out[k] = v
		}
	}
	for k, w := range b {
		if _, ok := a[k]; !ok {
			out[k] = w
		}
	}
	return out
}

func newAbs(kind string) *sabs { return &sabs{heads: cset{}, tails: cset{}, kind: kind} }

func absLit(s string) *sabs {
	a := newAbs("lit")
	a.src = strconv.Quote(s)
	if s == "" {
		a.mayEmpty = true
		return a
	}
	a.heads[normCh(s[0])] = true
	a.tails[normCh(s[len(s)-1])] = true
	return a
}

func opaqueAbs(src string) *sabs {
	a := newAbs("opaque")
	a.heads['?'] = true
	a.tails['?'] = true
	a.src = src
	return a
}

func joinAbs(a, b *sabs) *sabs {
	if a == nil {
		return b
	}
	if b == nil {
		return a
	}
	r := newAbs(a.kind)
	if a.kind != b.kind {
		r.kind = "mixed"
	}
	r.heads.add(a.heads)
	r.heads.add(b.heads)
	r.tails.add(a.tails)
	r.tails.add(b.tails)
	r.mayEmpty = a.mayEmpty || b.mayEmpty
	r.src = a.src
	return r
}

type fuseCtx struct {
	c          *Ctx
	info       *types.Info
	lt         *lexTables
	danger     map[[2]byte]string // pair -> token that would be read
	exprTypes  []string
	stmtTypes  []string
	first      map[string]cset
	last       map[string]cset
	prec       map[string][]int64
	lvalue     []string
	domains    map[string][]string // "Type.Field" -> token names (nil = unknown)
	reports    map[string]*fuseReport
	final      bool
	evalDepth  int
	junctions  int
	parenShape bool
	parenInt   bool // parenthesize takes the parent's precedence level instead of the parent
}

type fuseReport struct {
	pos     token.Pos
	bad     []string
	detail  string
	opaque  bool
	guarded bool
}

// lvalue-only fields: the parser puts only expressions accepted by ast.IsLValue there (assumption A5).
var lvalueFields = map[string]bool{"IncrExpr.Expr": true, "AssignExpr.Left": true, "AugAssignExpr.Left": true, "GetlineExpr.Target": true}

// intended fusions: junctions where two texts are meant to form one token; covered by R-PRINT TOKENS.
var intendedFusion = map[string]string{
	"AugAssignExpr.String": "operator text + \"=\" forms the augmented-assignment token (checked by R-PRINT tokens:augassign)",
}

type fuseEnv struct {
	fn       string // "Type.String" or function name
	recvName string
	recvType string
	vars     map[types.Object]*sabs
	tokDom   map[types.Object][]string
	exprDom  map[types.Object][]string
	elems    map[types.Object]*sabs // element abstraction of []string locals
	notPref  map[[2]types.Object]bool
	ret      *sabs
}

func ruleFuse(c *Ctx) {
	lt := c.lexTables()
	ap := c.pkg("internal/ast")
	if !lt.ok || ap == nil {
		c.undecided("anchor:lexer-tables", token.NoPos, "lexer tables not extractable")
		return
	}
	fc := &fuseCtx{c: c, info: ap.TypesInfo, lt: lt, danger: map[[2]byte]string{}, first: map[string]cset{}, last: map[string]cset{}, prec: map[string][]int64{}, domains: map[string][]string{}, reports: map[string]*fuseReport{}}
	for text, tok := range lt.scanText {
		for i := 0; i+1 < len(text); i++ {
			fc.danger[[2]byte{text[i], text[i+1]}] = tok
		}
	}
	for _, p := range [][2]byte{{'a', 'a'}, {'a', '0'}, {'0', '0'}, {'0', 'a'}, {'0', '.'}, {'.', '0'}} {
		fc.danger[p] = "one name or number"
	}
	if len(fc.danger) < 20 {
		c.undecided("anchor:danger-pairs", token.NoPos, "only %d dangerous pairs derived from the lexer", len(fc.danger))
		return
	}
	scope := ap.Types.Scope()
	exprI, _ := scope.Lookup("Expr").Type().Underlying().(*types.Interface)
	stmtI, _ := scope.Lookup("Stmt").Type().Underlying().(*types.Interface)
	if exprI == nil || stmtI == nil {
		c.undecided("anchor:ast.Expr", token.NoPos, "ast.Expr/Stmt not found")
		return
	}
	for _, name := range scope.Names() {
		tn, ok := scope.Lookup(name).(*types.TypeName)
		if !ok {
			continue
		}
		if _, ok := tn.Type().Underlying().(*types.Struct); !ok {
			continue
		}
		pt := types.NewPointer(tn.Type())
		if types.Implements(pt, exprI) {
			fc.exprTypes = append(fc.exprTypes, name)
		} else if types.Implements(pt, stmtI) {
			fc.stmtTypes = append(fc.stmtTypes, name)
		}
	}
	// lvalue types from ast.IsLValue
	if fd := c.funcDecl("internal/ast", "IsLValue"); fd != nil {
		ast.Inspect(fd.Body, func(n ast.Node) bool {
			if cc, ok := n.(*ast.CaseClause); ok {
				hasTrue := false
				for _, st := range cc.Body {
					if r, ok := st.(*ast.ReturnStmt); ok && len(r.Results) == 1 && isIdent(r.Results[0], "true") {
						hasTrue = true
					}
				}
				if hasTrue {
					for _, e := range cc.List {
						if s, ok := e.(*ast.StarExpr); ok {
							fc.lvalue = append(fc.lvalue, exprName(s.X))
						}
					}
				}
			}
			return true
		})
	}
	if len(fc.exprTypes) < 15 || len(fc.lvalue) < 3 {
		c.undecided("anchor:node-types", token.NoPos, "%d expression types, %d lvalue types", len(fc.exprTypes), len(fc.lvalue))
		return
	}
	// operator domains (needed by the precedence sets)
	fc.collectDomains()
	// precedence sets
	for _, t := range fc.exprTypes {
		fd := c.funcDecl("internal/ast", t+".precedence")
		if fd == nil {
			c.undecided("anchor:precedence:"+t, token.NoPos, "%s.precedence not found", t)
			return
		}
		constOf := func(r *ast.ReturnStmt) (int64, bool) {
			if len(r.Results) == 1 {
				if id, ok := r.Results[0].(*ast.Ident); ok {
					if k, ok := fc.info.Uses[id].(*types.Const); ok {
						v, _ := constant.Int64Val(k.Val())
						return v, true
					}
				}
			}
			return 0, false
		}
		// a switch on the node's operator field: keep only the clauses the operator domain can select
		var opSwitch *ast.SwitchStmt
		for _, st := range fd.Body.List {
			if sw, ok := st.(*ast.SwitchStmt); ok && sw.Tag != nil {
				if sel, ok := sw.Tag.(*ast.SelectorExpr); ok && fc.domains[t+"."+sel.Sel.Name] != nil {
					opSwitch = sw
				}
			}
		}
		if opSwitch != nil {
			dom := map[string]bool{}
			for _, d := range fc.domains[t+"."+opSwitch.Tag.(*ast.SelectorExpr).Sel.Name] {
				dom[d] = true
			}
			covered := map[string]bool{}
			var deflt *ast.CaseClause
			for _, cs := range opSwitch.Body.List {
				cc := cs.(*ast.CaseClause)
				if cc.List == nil {
					deflt = cc
					continue
				}
				hit := false
				for _, e := range cc.List {
					nm := selName(e)
					if dom[nm] {
						hit = true
						covered[nm] = true
					}
				}
				if hit {
					for _, st := range cc.Body {
						if r, ok := st.(*ast.ReturnStmt); ok {
							if v, ok := constOf(r); ok {
								fc.prec[t] = append(fc.prec[t], v)
							}
						}
					}
				}
			}
			if deflt != nil && len(covered) < len(dom) {
				for _, st := range deflt.Body {
					if r, ok := st.(*ast.ReturnStmt); ok {
						if v, ok := constOf(r); ok {
							fc.prec[t] = append(fc.prec[t], v)
						}
					}
				}
			}
		} else {
			ast.Inspect(fd.Body, func(n ast.Node) bool {
				if r, ok := n.(*ast.ReturnStmt); ok {
					if v, ok := constOf(r); ok {
						fc.prec[t] = append(fc.prec[t], v)
					}
				}
				return true
			})
		}
		if t == "BinaryExpr" {
			// evaluated per operator on the SSA form (switch, if chain or lookup table alike), over the operators the
			// parser can build
			if bp := binaryPrecedences(c); len(bp) > 0 && len(fc.domains["BinaryExpr.Op"]) > 0 {
				seen := map[int64]bool{}
				var vals []int64
				all := true
				for _, d := range fc.domains["BinaryExpr.Op"] {
					v, ok := bp[d]
					if !ok {
						all = false
						break
					}
					if !seen[v] {
						seen[v] = true
						vals = append(vals, v)
					}
				}
				if all {
					fc.prec[t] = vals
				}
			}
		}
		if len(fc.prec[t]) == 0 {
			c.undecided("anchor:precedence:"+t, fd.Pos(), "%s.precedence does not return precedence constants", t)
			return
		}
	}
	// parenthesize has the shape the model assumes
	fc.parenShape = fc.checkParenthesize()
	if !fc.parenShape && fc.checkParenthesizeInt() {
		fc.parenShape, fc.parenInt = true, true
	}
	c.check(fc.parenShape, "fuse:parenthesize-shape", posOf(c.funcDecl("internal/ast", "parenthesize")),
		"parenthesize(e, other) wraps e in ( ) exactly when e.precedence() < other.precedence()",
		"parenthesize no longer has the shape `if e.precedence() < other.precedence() { return \"(\" + e.String() + \")\" }; return e.String()`: the junction analysis' model of it is wrong")
	if !fc.parenShape {
		return
	}
	all := append(append([]string{}, fc.exprTypes...), fc.stmtTypes...)
	for _, t := range all {
		fc.first[t], fc.last[t] = cset{}, cset{}
	}
	for iter := 0; iter < 15; iter++ {
		changed := false
		for _, t := range all {
			fd := c.funcDecl("internal/ast", t+".String")
			if fd == nil {
				continue
			}
			r := fc.evalFunc(fd, t, nil)
			if r != nil {
				if fc.first[t].add(r.heads) {
					changed = true
				}
				if fc.last[t].add(r.tails) {
					changed = true
				}
			}
		}
		if !changed {
			break
		}
	}
	fc.final = true
	fc.reports = map[string]*fuseReport{}
	for _, t := range all {
		if fd := c.funcDecl("internal/ast", t+".String"); fd != nil {
			fc.evalFunc(fd, t, nil)
		} else {
			c.undecided("anchor:String:"+t, token.NoPos, "%s has no String method in package ast", t)
		}
	}
	for _, extra := range []string{"Program.String", "Action.String", "Function.String", "Stmts.String"} {
		if fd := c.funcDecl("internal/ast", extra); fd != nil {
			fc.evalFunc(fd, strings.TrimSuffix(extra, ".String"), nil)
		}
	}
	var keys []string
	for k := range fc.reports {
		keys = append(keys, k)
	}
	sort.Strings(keys)
	nontriv := 0
	for _, k := range keys {
		r := fc.reports[k]
		switch {
		case len(r.bad) > 0:
			c.bad(k, r.pos, "%s: the text on the left can end and the text on the right can start with %s - read by the lexer as a different token sequence than the one printed", r.detail, strings.Join(r.bad, ", "))
			nontriv++
		case r.opaque:
			c.undecided(k, r.pos, "%s: one side is a string the analysis cannot describe next to an operator or operand text", r.detail)
		default:
			if r.guarded {
				c.ok(k, r.pos, "%s: safe (equal first characters excluded by the HasPrefix test that inserts a space)", r.detail)
			} else {
				c.ok(k, r.pos, "%s: no pair forms a longer token", r.detail)
			}
			nontriv++
		}
	}
	// FIRST/LAST summary as evidence
	var fs []string
	for _, t := range fc.exprTypes {
		fs = append(fs, t+"["+fc.first[t].str()+"|"+fc.last[t].str()+"]")
	}
	c.trivial("fuse:first-last", token.NoPos, "FIRST|LAST per expression type ('a' any name character, '0' any digit): %s", strings.Join(fs, " "))
	c.atLeast("operator/operand junctions", nontriv, 25)
}

func (fc *fuseCtx) checkParenthesize() bool {
	fd := fc.c.funcDecl("internal/ast", "parenthesize")
	if fd == nil || len(fd.Body.List) != 2 || len(fd.Type.Params.List) != 1 || len(fd.Type.Params.List[0].Names) != 2 {
		return false
	}
	e, o := fd.Type.Params.List[0].Names[0].Name, fd.Type.Params.List[0].Names[1].Name
	is, ok := fd.Body.List[0].(*ast.IfStmt)
	if !ok || types.ExprString(is.Cond) != e+".precedence() < "+o+".precedence()" || len(is.Body.List) != 1 {
		return false
	}
	return fc.parenBody(fd, is, e)
}

// checkParenthesizeInt: the same function taking the parent's precedence level instead of the parent:
// parenthesize(e Expr, level int) wraps e exactly when e.precedence() < level.
func (fc *fuseCtx) checkParenthesizeInt() bool {
	fd := fc.c.funcDecl("internal/ast", "parenthesize")
	if fd == nil || len(fd.Body.List) != 2 || len(fd.Type.Params.List) != 2 || len(fd.Type.Params.List[0].Names) != 1 || len(fd.Type.Params.List[1].Names) != 1 {
		return false
	}
	if b, ok := fc.info.TypeOf(fd.Type.Params.List[1].Type).Underlying().(*types.Basic); !ok || b.Kind() != types.Int {
		return false
	}
	e, o := fd.Type.Params.List[0].Names[0].Name, fd.Type.Params.List[1].Names[0].Name
	is, ok := fd.Body.List[0].(*ast.IfStmt)
	if !ok || types.ExprString(is.Cond) != e+".precedence() < "+o || len(is.Body.List) != 1 {
		return false
	}
	return fc.parenBody(fd, is, e)
}

func (fc *fuseCtx) parenBody(fd *ast.FuncDecl, is *ast.IfStmt, e string) bool {
	r1, ok := is.Body.List[0].(*ast.ReturnStmt)
	if !ok || types.ExprString(r1.Results[0]) != `"(" + `+e+`.String() + ")"` {
		return false
	}
	r2, ok := fd.Body.List[1].(*ast.ReturnStmt)
	return ok && types.ExprString(r2.Results[0]) == e+".String()"
}

// collectDomains: which tokens the tree builders can store into Token-typed node fields.
func (fc *fuseCtx) collectDomains() {
	// package parser: per-token evaluation of every function that builds a node (gramssa.go)
	if g := newGssa(fc.c); g != nil {
		doms, _ := fc.c.memo["gssa.tokenDomains"].(map[string][]string)
		if doms == nil {
			doms = g.tokenDomains()
			fc.c.memo["gssa.tokenDomains"] = doms
		}
		var keys []string
		for k := range doms {
			keys = append(keys, k)
		}
		sort.Strings(keys)
		for _, key := range keys {
			unknown := false
			for _, t := range doms[key] {
				if t == "?" {
					unknown = true
				}
			}
			if unknown {
				fc.domains[key] = nil
				fc.domains[key+"#unknown"] = []string{"?"}
				continue
			}
			fc.domains[key] = append(fc.domains[key], doms[key]...)
		}
		fc.c.trivial("fuse:domains", token.NoPos, "operator domains built by the parser (per-token evaluation): %v", doms)
	} else {
		fc.c.undecided("anchor:parser-ssa", token.NoPos, "package parser not resolvable for the operator domains")
	}
	for _, pk := range []string{"internal/cover", "internal/resolver"} {
		p := fc.c.pkg(pk)
		if p == nil {
			continue
		}
		for _, file := range p.Syntax {
			ast.Inspect(file, func(n ast.Node) bool {
				cl, ok := n.(*ast.CompositeLit)
				if !ok {
					return true
				}
				t := p.TypesInfo.TypeOf(cl)
				nm := named(t)
				if nm == nil || nm.Obj().Pkg() == nil || nm.Obj().Pkg().Path() != modPath+"/internal/ast" {
					return true
				}
				for _, el := range cl.Elts {
					kv, ok := el.(*ast.KeyValueExpr)
					if !ok {
						continue
					}
					ft := p.TypesInfo.TypeOf(kv.Value)
					if ft == nil || !isNamed(ft, modPath+"/lexer", "Token") {
						continue
					}
					key := nm.Obj().Name() + "." + exprName(kv.Key)
					dom, complete := fc.tokenValues(p.TypesInfo, file, kv.Value)
					if !complete {
						fc.domains[key] = nil
						fc.domains[key+"#unknown"] = []string{"?"}
						continue
					}
					if _, unk := fc.domains[key+"#unknown"]; !unk {
						fc.domains[key] = append(fc.domains[key], dom...)
					}
				}
				return true
			})
		}
	}
}

// tokenValues: the token constants an expression of type lexer.Token can hold at a construction site.
func (fc *fuseCtx) tokenValues(info *types.Info, file *ast.File, e ast.Expr) ([]string, bool) {
	switch x := e.(type) {
	case *ast.SelectorExpr:
		if k, ok := info.Uses[x.Sel].(*types.Const); ok {
			return []string{k.Name()}, true
		}
		if sel, ok := info.Selections[x]; ok && sel.Kind() == types.FieldVal {
			if nm := named(deref(sel.Recv())); nm != nil && nm.Obj().Pkg() != nil && nm.Obj().Pkg().Path() == modPath+"/internal/ast" {
				// copied from the same field of an existing node: adds no new value
				return nil, true
			}
		}
	case *ast.Ident:
		obj := info.Uses[x]
		if obj == nil {
			return nil, false
		}
		if k, ok := obj.(*types.Const); ok {
			return []string{k.Name()}, true
		}
		// every assignment to this variable in the file
		var out []string
		complete := true
		found := false
		ast.Inspect(file, func(n ast.Node) bool {
			as, ok := n.(*ast.AssignStmt)
			if !ok {
				return true
			}
			for i, l := range as.Lhs {
				id, ok := l.(*ast.Ident)
				if !ok || (info.Defs[id] != obj && info.Uses[id] != obj) || len(as.Rhs) != len(as.Lhs) {
					continue
				}
				found = true
				rhs := as.Rhs[i]
				if s, ok := rhs.(*ast.SelectorExpr); ok {
					if k, ok := info.Uses[s.Sel].(*types.Const); ok {
						out = append(out, k.Name())
						continue
					}
					if s.Sel.Name == "tok" {
						// p.tok under an enclosing test of p.tok
						d, ok := fc.enclosingTokTest(info, file, as)
						if ok {
							out = append(out, d...)
							continue
						}
					}
				}
				complete = false
			}
			return true
		})
		if _, isParam := obj.(*types.Var); isParam && !found {
			return nil, false
		}
		// parameters (assigned by callers) are not resolvable
		if v, ok := obj.(*types.Var); ok && v.Parent() != nil {
			if sc := v.Parent(); sc != nil && isParamOf(info, file, v) {
				complete = false
			}
		}
		return out, complete && found
	}
	return nil, false
}

func isParamOf(info *types.Info, file *ast.File, v *types.Var) bool {
	is := false
	ast.Inspect(file, func(n ast.Node) bool {
		fd, ok := n.(*ast.FuncDecl)
		if !ok {
			return true
		}
		for _, f := range fd.Type.Params.List {
			for _, nm := range f.Names {
				if info.Defs[nm] == v {
					is = true
				}
			}
		}
		return true
	})
	return is
}

// enclosingTokTest: the set of tokens p.tok is known to be among at this statement.
func (fc *fuseCtx) enclosingTokTest(info *types.Info, file *ast.File, at ast.Node) ([]string, bool) {
	path, _ := astutil.PathEnclosingInterval(file, at.Pos(), at.End())
	consts := func(es []ast.Expr) ([]string, bool) {
		var out []string
		for _, e := range es {
			s, ok := e.(*ast.SelectorExpr)
			if !ok {
				return nil, false
			}
			k, ok := info.Uses[s.Sel].(*types.Const)
			if !ok {
				return nil, false
			}
			out = append(out, k.Name())
		}
		return out, len(out) > 0
	}
	var fromCond func(e ast.Expr) ([]string, bool)
	fromCond = func(e ast.Expr) ([]string, bool) {
		switch x := e.(type) {
		case *ast.ParenExpr:
			return fromCond(x.X)
		case *ast.CallExpr:
			if s, ok := x.Fun.(*ast.SelectorExpr); ok && s.Sel.Name == "matches" && !x.Ellipsis.IsValid() {
				return consts(x.Args)
			}
			if s, ok := x.Fun.(*ast.SelectorExpr); ok && s.Sel.Name == "matches" && x.Ellipsis.IsValid() && len(x.Args) == 1 {
				// matches(ops...) with ops the variadic parameter of the enclosing function:
				// the union of the constant lists every caller in this file passes
				pobj, _ := info.Uses[identOf(x.Args[0])].(*types.Var)
				var encl *ast.FuncDecl
				for _, n := range path {
					if fd, ok := n.(*ast.FuncDecl); ok {
						encl = fd
					}
				}
				if pobj == nil || encl == nil {
					return nil, false
				}
				idx := -1
				i := 0
				for _, f := range encl.Type.Params.List {
					for _, nm := range f.Names {
						if info.Defs[nm] == pobj {
							if _, isEll := f.Type.(*ast.Ellipsis); isEll {
								idx = i
							}
						}
						i++
					}
				}
				fobj := info.Defs[encl.Name]
				if idx < 0 || fobj == nil {
					return nil, false
				}
				var out []string
				okAll, calls := true, 0
				ast.Inspect(file, func(n ast.Node) bool {
					call, ok := n.(*ast.CallExpr)
					if !ok {
						return true
					}
					var id *ast.Ident
					switch f := call.Fun.(type) {
					case *ast.SelectorExpr:
						id = f.Sel
					case *ast.Ident:
						id = f
					}
					if id == nil || info.Uses[id] != fobj {
						return true
					}
					calls++
					if call.Ellipsis.IsValid() || len(call.Args) < idx {
						okAll = false
						return true
					}
					d, ok := consts(call.Args[idx:])
					if !ok {
						okAll = false
					}
					out = append(out, d...)
					return true
				})
				return out, okAll && calls > 0
			}
		case *ast.BinaryExpr:
			if x.Op == token.EQL {
				if s, ok := x.X.(*ast.SelectorExpr); ok && s.Sel.Name == "tok" {
					return consts([]ast.Expr{x.Y})
				}
			}
			if x.Op == token.LOR {
				a, ok1 := fromCond(x.X)
				b, ok2 := fromCond(x.Y)
				if ok1 && ok2 {
					return append(a, b...), true
				}
			}
			if x.Op == token.LAND {
				// a conjunction holds only if each side does: either side's set bounds p.tok
				if a, ok := fromCond(x.X); ok {
					return a, true
				}
				return fromCond(x.Y)
			}
		}
		return nil, false
	}
	for i, n := range path {
		switch x := n.(type) {
		case *ast.CaseClause:
			// the switch must be on p.tok
			if i+2 < len(path) {
				if sw, ok := path[i+2].(*ast.SwitchStmt); ok && sw.Tag != nil {
					if s, ok := sw.Tag.(*ast.SelectorExpr); ok && s.Sel.Name == "tok" && x.List != nil {
						return consts(x.List)
					}
				}
			}
		case *ast.IfStmt:
			// only when we are inside the then-branch
			if i > 0 && path[i-1] == ast.Node(x.Body) {
				if d, ok := fromCond(x.Cond); ok {
					return d, true
				}
			}
		case *ast.ForStmt:
			if x.Cond != nil && i > 0 && path[i-1] == ast.Node(x.Body) {
				if d, ok := fromCond(x.Cond); ok {
					return d, true
				}
			}
		case *ast.FuncDecl, *ast.FuncLit:
			return nil, false
		}
	}
	return nil, false
}

func (fc *fuseCtx) tokAbs(domain []string, src string) *sabs {
	a := newAbs("tok")
	a.src = src
	a.singleChar = true
	if domain == nil {
		for t, text := range fc.lt.tokenText {
			if strings.HasPrefix(text, "<") && len(text) > 2 || t == "EOF" || t == "NAME" || t == "NUMBER" || t == "STRING" || t == "REGEX" {
				continue
			}
			domain = append(domain, t)
		}
		a.src += "{any token}"
	}
	for _, t := range domain {
		text := fc.lt.tokenText[t]
		if text == "" {
			continue
		}
		if len(text) != 1 {
			a.singleChar = false
		}
		a.heads[normCh(text[0])] = true
		a.tails[normCh(text[len(text)-1])] = true
	}
	return a
}

func (fc *fuseCtx) maxPrec(t string) int64 {
	m := int64(-1)
	for _, p := range fc.prec[t] {
		if p > m {
			m = p
		}
	}
	return m
}
func (fc *fuseCtx) minPrec(t string) int64 {
	m := int64(1 << 30)
	for _, p := range fc.prec[t] {
		if p < m {
			m = p
		}
	}
	return m
}

// exprAbs: text of an expression drawn from the given node types; when parenOf != "" it went through parenthesize(x, parenOf).
func (fc *fuseCtx) exprAbs(typesIn []string, parenOf string, src string) *sabs {
	a := newAbs("expr")
	a.src = src
	for _, u := range typesIn {
		if parenOf == "" {
			a.heads.add(fc.first[u])
			a.tails.add(fc.last[u])
			continue
		}
		if fc.maxPrec(u) >= fc.minPrec(parenOf) {
			a.heads.add(fc.first[u])
			a.tails.add(fc.last[u])
		}
		if fc.minPrec(u) < fc.maxPrec(parenOf) {
			a.heads['('] = true
			a.tails[')'] = true
		}
	}
	return a
}

func (fc *fuseCtx) concat(env *fuseEnv, a, b *sabs, pos token.Pos) *sabs {
	if a == nil {
		return b
	}
	if b == nil {
		return a
	}
	r := newAbs("mixed")
	r.src = a.src + " + " + b.src
	r.heads.add(a.heads)
	if a.mayEmpty {
		r.heads.add(b.heads)
	}
	r.tails.add(b.tails)
	if b.mayEmpty {
		r.tails.add(a.tails)
	}
	r.mayEmpty = a.mayEmpty && b.mayEmpty
	r.lastKind = lastKindOf(b)
	if b.mayEmpty && lastKindOf(a) != lastKindOf(b) {
		r.lastKind = "mixed"
	}
	if !fc.final {
		return r
	}
	// junction check
	interesting := a.kind == "tok" || b.kind == "tok" || a.kind == "expr" || b.kind == "expr" || a.kind == "name" || b.kind == "name" || a.kind == "mixed" || b.kind == "mixed"
	if !interesting {
		return r
	}
	key := "fuse:" + env.fn + ":" + shortSrc(a.src) + "|" + shortSrc(b.src)
	rep := fc.reports[key]
	if rep == nil {
		rep = &fuseReport{pos: pos}
		fc.reports[key] = rep
	}
	rep.detail = "junction " + shortSrc(a.src) + " [" + a.tails.str() + "] · [" + b.heads.str() + "] " + shortSrc(b.src)
	if why, ok := intendedFusion[env.fn]; ok && lastKindOf(a) == "tok" && b.kind == "lit" && b.heads['='] && len(b.heads) == 1 {
		rep.detail += " - " + why
		return r
	}
	guard := false
	if a.obj != nil && b.obj != nil && env.notPref[[2]types.Object{b.obj, a.obj}] && a.singleChar {
		guard = true
		rep.guarded = true
	}
	if (a.tails['?'] && (b.kind == "tok" || b.kind == "expr")) || (b.heads['?'] && (a.kind == "tok" || a.kind == "expr")) {
		rep.opaque = true
	}
	seen := map[string]bool{}
	for x := range a.tails {
		for y := range b.heads {
			if guard && x == y {
				continue
			}
			if tok, ok := fc.danger[[2]byte{x, y}]; ok {
				s := strconv.Quote(string(x)+string(y)) + " (" + tok + ")"
				if !seen[s] {
					seen[s] = true
					rep.bad = append(rep.bad, s)
				}
			}
		}
	}
	sort.Strings(rep.bad)
	return r
}

func shortSrc(s string) string {
	if len(s) > 60 {
		return s[:57] + "..."
	}
	return s
}

// evalFunc interprets a String method (or helper) and returns the abstraction of its result.
func (fc *fuseCtx) evalFunc(fd *ast.FuncDecl, recvType string, bind func(env *fuseEnv)) *sabs {
	if fc.evalDepth > 4 {
		return opaqueAbs(fd.Name.Name + "(...)")
	}
	fc.evalDepth++
	defer func() { fc.evalDepth-- }()
	env := &fuseEnv{fn: declName(fd), recvType: recvType, vars: map[types.Object]*sabs{}, tokDom: map[types.Object][]string{}, exprDom: map[types.Object][]string{}, elems: map[types.Object]*sabs{}, notPref: map[[2]types.Object]bool{}}
	if fd.Recv != nil && len(fd.Recv.List) == 1 && len(fd.Recv.List[0].Names) == 1 {
		env.recvName = fd.Recv.List[0].Names[0].Name
	}
	if bind != nil {
		bind(env)
	}
	fc.block(env, fd.Body.List, false)
	if env.ret == nil {
		return opaqueAbs(env.fn + "()")
	}
	return env.ret
}

func terminates(list []ast.Stmt) bool {
	if len(list) == 0 {
		return false
	}
	_, ok := list[len(list)-1].(*ast.ReturnStmt)
	return ok
}

func (fc *fuseCtx) block(env *fuseEnv, list []ast.Stmt, nested bool) {
	var added [][2]types.Object
	for _, st := range list {
		switch s := st.(type) {
		case *ast.DeclStmt:
			if gd, ok := s.Decl.(*ast.GenDecl); ok {
				for _, sp := range gd.Specs {
					vs, ok := sp.(*ast.ValueSpec)
					if !ok {
						continue
					}
					for i, nm := range vs.Names {
						obj := fc.info.Defs[nm]
						if b, ok := obj.Type().Underlying().(*types.Basic); ok && b.Kind() == types.String {
							if i < len(vs.Values) {
								env.vars[obj] = fc.abs(env, vs.Values[i])
							} else {
								env.vars[obj] = absLit("")
							}
						} else if isNamed(obj.Type(), "strings", "Builder") {
							env.vars[obj] = absLit("")
						}
					}
				}
			}
		case *ast.AssignStmt:
			fc.assign(env, s, nested)
		case *ast.ExprStmt:
			fc.builderCall(env, s.X, nested)
		case *ast.IfStmt:
			if s.Init != nil {
				fc.block(env, []ast.Stmt{s.Init}, nested)
			}
			var fact *[2]types.Object
			if call, ok := s.Cond.(*ast.CallExpr); ok && len(call.Args) == 2 {
				if sel, ok := call.Fun.(*ast.SelectorExpr); ok && sel.Sel.Name == "HasPrefix" && isIdent(sel.X, "strings") {
					v, o := fc.identObj(call.Args[0]), fc.identObj(call.Args[1])
					if v != nil && o != nil {
						fact = &[2]types.Object{v, o}
					}
				}
			}
			// flow-sensitive: both branches start from the state before the if; the
			// state after it is the join of the branches that fall through
			pre := cloneVars(env.vars)
			fc.block(env, s.Body.List, nested)
			thenVars, thenTerm := env.vars, terminates(s.Body.List)
			env.vars = cloneVars(pre)
			elseTerm := false
			if s.Else != nil {
				if fact != nil {
					env.notPref[*fact] = true
				}
				switch e := s.Else.(type) {
				case *ast.BlockStmt:
					fc.block(env, e.List, nested)
					elseTerm = terminates(e.List)
				case *ast.IfStmt:
					fc.block(env, []ast.Stmt{e}, nested)
				}
				if fact != nil {
					delete(env.notPref, *fact)
				}
			} else if fact != nil && thenTerm {
				env.notPref[*fact] = true
				added = append(added, *fact)
			}
			switch {
			case thenTerm && !elseTerm:
				// keep the else/fall-through state
			case elseTerm && !thenTerm:
				env.vars = thenVars
			default:
				env.vars = mergeVars(thenVars, env.vars)
			}
		case *ast.RangeStmt:
			// element domain of the range variable
			if s.Value != nil {
				if id, ok := s.Value.(*ast.Ident); ok {
					if obj := fc.info.Defs[id]; obj != nil {
						if xo := fc.identObj(s.X); xo != nil && env.exprDom[xo] != nil {
							env.exprDom[obj] = env.exprDom[xo]
						}
						if xo := fc.identObj(s.X); xo != nil && env.elems[xo] != nil {
							env.vars[obj] = env.elems[xo]
						}
					}
				}
			}
			fc.loop(env, s.Body.List)
		case *ast.ForStmt:
			fc.loop(env, s.Body.List)
		case *ast.SwitchStmt:
			pre := cloneVars(env.vars)
			var out map[types.Object]*sabs
			hasDefault := false
			for _, cs := range s.Body.List {
				cc := cs.(*ast.CaseClause)
				if cc.List == nil {
					hasDefault = true
				}
				env.vars = cloneVars(pre)
				fc.block(env, cc.Body, nested)
				if terminates(cc.Body) {
					continue
				}
				if out == nil {
					out = env.vars
				} else {
					out = mergeVars(out, env.vars)
				}
			}
			if !hasDefault || out == nil {
				if out == nil {
					out = pre
				} else {
					out = mergeVars(out, pre)
				}
			}
			env.vars = out
		case *ast.BlockStmt:
			fc.block(env, s.List, nested)
		case *ast.ReturnStmt:
			if len(s.Results) == 1 {
				if t := fc.info.TypeOf(s.Results[0]); t != nil {
					if b, ok := t.Underlying().(*types.Basic); ok && b.Kind() == types.String {
						env.ret = joinAbs(env.ret, fc.abs(env, s.Results[0]))
					}
				}
			}
		}
	}
	for _, f := range added {
		delete(env.notPref, f)
	}
}

// loop: zero, one or more iterations - the body is run twice from the joined state.
func (fc *fuseCtx) loop(env *fuseEnv, body []ast.Stmt) {
	for i := 0; i < 2; i++ {
		pre := cloneVars(env.vars)
		fc.block(env, body, false)
		env.vars = mergeVars(pre, env.vars)
	}
}

func (fc *fuseCtx) identObj(e ast.Expr) types.Object {
	if id, ok := e.(*ast.Ident); ok {
		if o := fc.info.Uses[id]; o != nil {
			return o
		}
		return fc.info.Defs[id]
	}
	return nil
}

func isStringType(t types.Type) bool {
	if t == nil {
		return false
	}
	b, ok := t.Underlying().(*types.Basic)
	return ok && b.Info()&types.IsString != 0
}

func (fc *fuseCtx) assign(env *fuseEnv, s *ast.AssignStmt, nested bool) {
	if len(s.Lhs) != len(s.Rhs) {
		return
	}
	for i, l := range s.Lhs {
		rhs := s.Rhs[i]
		// element stores: list[i] = X.String()
		if ix, ok := l.(*ast.IndexExpr); ok {
			if lo := fc.identObj(ix.X); lo != nil && isStringType(fc.info.TypeOf(rhs)) {
				env.elems[lo] = joinAbs(env.elems[lo], fc.abs(env, rhs))
			}
			continue
		}
		obj := fc.identObj(l)
		if obj == nil {
			continue
		}
		t := fc.info.TypeOf(rhs)
		switch {
		case isStringType(t):
			v := fc.abs(env, rhs)
			switch s.Tok {
			case token.ADD_ASSIGN:
				old := env.vars[obj]
				if old == nil {
					old = opaqueAbs(obj.Name())
				}
				nv := fc.concat(env, old, v, s.Pos())
				if nested {
					nv = joinAbs(old, nv)
				}
				nv.src = obj.Name()
				env.vars[obj] = nv
			default:
				if nested && env.vars[obj] != nil {
					v = joinAbs(env.vars[obj], v)
				}
				cp := *v
				cp.obj = nil
				env.vars[obj] = &cp
			}
		case t != nil && isSliceOfString(t):
			// lines = append(lines, X) : element join
			if call, ok := rhs.(*ast.CallExpr); ok && isIdent(call.Fun, "append") && len(call.Args) >= 2 {
				for _, a := range call.Args[1:] {
					if isStringType(fc.info.TypeOf(a)) {
						env.elems[obj] = joinAbs(env.elems[obj], fc.abs(env, a))
					}
				}
			}
		}
	}
}

func isSliceOfString(t types.Type) bool {
	s, ok := t.Underlying().(*types.Slice)
	return ok && isStringType(s.Elem())
}

// builderCall: sb.WriteByte/WriteString on a strings.Builder local, or fmt.Fprintf(&sb, ...)
func (fc *fuseCtx) builderCall(env *fuseEnv, e ast.Expr, nested bool) {
	call, ok := e.(*ast.CallExpr)
	if !ok {
		return
	}
	sel, ok := call.Fun.(*ast.SelectorExpr)
	if !ok {
		return
	}
	obj := fc.identObj(sel.X)
	var v *sabs
	if obj != nil && isNamed(obj.Type(), "strings", "Builder") && len(call.Args) == 1 {
		switch sel.Sel.Name {
		case "WriteByte", "WriteRune":
			if s, err := strconv.Unquote(litText(call.Args[0])); err == nil {
				v = absLit(s)
			} else {
				v = opaqueAbs("byte")
			}
		case "WriteString":
			v = fc.abs(env, call.Args[0])
		}
	} else if isIdent(sel.X, "fmt") && sel.Sel.Name == "Fprintf" && len(call.Args) >= 2 {
		if u, ok := call.Args[0].(*ast.UnaryExpr); ok {
			obj = fc.identObj(u.X)
			v = opaqueAbs("Fprintf")
		}
	}
	if obj == nil || v == nil || env.vars[obj] == nil {
		return
	}
	old := env.vars[obj]
	// content of a literal being built: junctions inside are not token junctions
	nv := newAbs("opaque")
	nv.heads.add(old.heads)
	if old.mayEmpty {
		nv.heads.add(v.heads)
	}
	nv.tails.add(v.tails)
	if v.mayEmpty || nested {
		nv.tails.add(old.tails)
	}
	nv.mayEmpty = old.mayEmpty && v.mayEmpty
	if nested {
		nv.heads.add(old.heads)
		nv.mayEmpty = old.mayEmpty
	}
	nv.src = obj.Name()
	env.vars[obj] = nv
}

func (fc *fuseCtx) allExprTypes() []string { return fc.exprTypes }

// typesAt: node types that expression x (of interface type Expr, or concrete) can denote.
func (fc *fuseCtx) typesAt(env *fuseEnv, x ast.Expr) []string {
	t := fc.info.TypeOf(x)
	if nm := named(deref(t)); nm != nil {
		if _, isStruct := nm.Underlying().(*types.Struct); isStruct {
			return []string{nm.Obj().Name()}
		}
	}
	if s, ok := x.(*ast.SelectorExpr); ok && isIdent(s.X, env.recvName) {
		if lvalueFields[env.recvType+"."+s.Sel.Name] {
			return fc.lvalue
		}
	}
	if obj := fc.identObj(x); obj != nil && env.exprDom[obj] != nil {
		return env.exprDom[obj]
	}
	if nm := named(t); nm != nil && nm.Obj().Name() == "Stmt" {
		return fc.stmtTypes
	}
	return fc.exprTypes
}

func (fc *fuseCtx) abs(env *fuseEnv, e ast.Expr) *sabs {
	switch x := e.(type) {
	case *ast.ParenExpr:
		return fc.abs(env, x.X)
	case *ast.BasicLit:
		if s, err := strconv.Unquote(x.Value); err == nil {
			return absLit(s)
		}
	case *ast.BinaryExpr:
		if x.Op == token.ADD {
			return fc.concat(env, fc.abs(env, x.X), fc.abs(env, x.Y), x.OpPos)
		}
	case *ast.Ident:
		obj := fc.identObj(x)
		if v := env.vars[obj]; v != nil {
			cp := *v
			cp.obj = obj
			if cp.src == "" || len(cp.src) > 40 {
				cp.src = x.Name
			}
			return &cp
		}
		return opaqueAbs(x.Name)
	case *ast.SelectorExpr:
		if isStringType(fc.info.TypeOf(x)) {
			a := newAbs("name")
			a.src = types.ExprString(x)
			a.heads['a'] = true
			a.tails['a'] = true
			a.tails['0'] = true
			return a
		}
	case *ast.IndexExpr:
		if lo := fc.identObj(x.X); lo != nil && env.elems[lo] != nil {
			return env.elems[lo]
		}
	case *ast.SliceExpr:
		return opaqueAbs(types.ExprString(x))
	case *ast.CallExpr:
		return fc.call(env, x)
	}
	return opaqueAbs(types.ExprString(e))
}

func (fc *fuseCtx) call(env *fuseEnv, x *ast.CallExpr) *sabs {
	src := types.ExprString(x)
	switch f := x.Fun.(type) {
	case *ast.SelectorExpr:
		// X.String()
		if f.Sel.Name == "String" && len(x.Args) == 0 {
			rt := fc.info.TypeOf(f.X)
			switch {
			case isNamed(rt, modPath+"/lexer", "Token"):
				var dom []string
				if s, ok := f.X.(*ast.SelectorExpr); ok && isIdent(s.X, env.recvName) {
					dom = fc.domains[env.recvType+"."+s.Sel.Name]
				} else if obj := fc.identObj(f.X); obj != nil {
					dom = env.tokDom[obj]
				}
				return fc.tokAbs(dom, src)
			case isNamed(rt, "strings", "Builder") || isNamed(deref(rt), "strings", "Builder"):
				if obj := fc.identObj(f.X); obj != nil && env.vars[obj] != nil {
					cp := *env.vars[obj]
					cp.kind = "lit"
					cp.src = src
					return &cp
				}
			case isNamed(rt, modPath+"/internal/ast", "Stmts"):
				a := newAbs("lit")
				a.src = src
				a.heads[' '] = true
				a.tails['\n'] = true
				a.mayEmpty = true
				return a
			default:
				if nm := named(deref(rt)); nm != nil && nm.Obj().Pkg() != nil && nm.Obj().Pkg().Path() == modPath+"/internal/ast" {
					return fc.exprAbs(fc.typesAt(env, f.X), "", src)
				}
			}
			return opaqueAbs(src)
		}
		if isIdent(f.X, "strings") {
			switch f.Sel.Name {
			case "Join":
				if lo := fc.identObj(x.Args[0]); lo != nil {
					el := env.elems[lo]
					if el == nil {
						if s, ok := x.Args[0].(*ast.SelectorExpr); ok {
							_ = s
						}
						// a []string field such as Function.Params: names
						el = nil
					}
					if el != nil {
						sep := fc.abs(env, x.Args[1])
						cp := *el
						cp.src = "elem"
						fc.concat(env, &cp, sep, x.Pos())
						fc.concat(env, sep, &cp, x.Pos())
						r := *el
						r.mayEmpty = true
						r.src = src
						r.obj = nil
						return &r
					}
				}
				if s, ok := x.Args[0].(*ast.SelectorExpr); ok && isSliceOfString(fc.info.TypeOf(s)) {
					a := newAbs("name")
					a.src = src
					a.heads['a'] = true
					a.tails['a'] = true
					a.tails['0'] = true
					a.mayEmpty = true
					return a
				}
			}
			return opaqueAbs(src)
		}
		if isIdent(f.X, "strconv") && (f.Sel.Name == "FormatInt" || f.Sel.Name == "Itoa" || f.Sel.Name == "FormatFloat") {
			return numAbs(src)
		}
		if isIdent(f.X, "fmt") && f.Sel.Name == "Sprintf" && len(x.Args) >= 1 {
			if s, err := strconv.Unquote(litText(x.Args[0])); err == nil && (strings.HasSuffix(s, "g") || strings.HasSuffix(s, "d")) && strings.HasPrefix(s, "%") {
				return numAbs(src)
			}
		}
	case *ast.Ident:
		fn, ok := fc.info.Uses[f].(*types.Func)
		if !ok || fn.Pkg() == nil || fn.Pkg().Path() != modPath+"/internal/ast" {
			return opaqueAbs(src)
		}
		if fn.Name() == "parenthesize" && len(x.Args) == 2 {
			// second argument is the node being printed
			of := env.recvType
			if nm := named(deref(fc.info.TypeOf(x.Args[1]))); nm != nil {
				of = nm.Obj().Name()
			}
			if fc.parenInt {
				// ... or that node's precedence level: recv.precedence(), directly or through a local defined once as that
				if !fc.isRecvPrecedence(env, x.Args[1]) {
					fc.c.undecided("fuse:parenthesize-level:"+env.fn, x.Pos(), "the level passed to parenthesize is not the precedence of the node being printed (%s.precedence())", env.recvName)
					return opaqueAbs(src)
				}
			}
			return fc.exprAbs(fc.typesAt(env, x.Args[0]), of, src)
		}
		callee := fc.c.funcDecl("internal/ast", fn.Name())
		if callee == nil || callee.Body == nil {
			return opaqueAbs(src)
		}
		r := fc.evalFunc(callee, env.recvType, func(ce *fuseEnv) {
			i := 0
			for _, fld := range callee.Type.Params.List {
				for _, nm := range fld.Names {
					if i >= len(x.Args) {
						break
					}
					arg := x.Args[i]
					obj := fc.info.Defs[nm]
					at := fc.info.TypeOf(arg)
					switch {
					case isStringType(at):
						v := fc.abs(env, arg)
						cp := *v
						cp.obj = nil
						ce.vars[obj] = &cp
					case isNamed(at, modPath+"/lexer", "Token"):
						if s, ok := arg.(*ast.SelectorExpr); ok && isIdent(s.X, env.recvName) {
							ce.tokDom[obj] = fc.domains[env.recvType+"."+s.Sel.Name]
						}
					default:
						if s, ok := arg.(*ast.SelectorExpr); ok && isIdent(s.X, env.recvName) && lvalueFields[env.recvType+"."+s.Sel.Name] {
							ce.exprDom[obj] = fc.lvalue
						}
					}
					i++
				}
			}
			ce.fn = env.fn + ">" + callee.Name.Name
		})
		cp := *r
		cp.src = src
		if cp.kind == "mixed" || cp.kind == "opaque" {
			// the result of a literal-writing helper (quoteString, formatRegex) is one token
			cp.kind = "lit"
		}
		return &cp
	}
	return opaqueAbs(src)
}

func numAbs(src string) *sabs {
	a := newAbs("lit")
	a.src = src
	a.heads['0'] = true
	a.heads['-'] = true
	a.tails['0'] = true
	return a
}

// isRecvPrecedence: e is recv.precedence(), or a local variable of the enclosing method whose only definition is that.
func (fc *fuseCtx) isRecvPrecedence(env *fuseEnv, e ast.Expr) bool {
	isCall := func(x ast.Expr) bool {
		call, ok := stripParens(x).(*ast.CallExpr)
		if !ok || len(call.Args) != 0 {
			return false
		}
		se, ok := call.Fun.(*ast.SelectorExpr)
		return ok && se.Sel.Name == "precedence" && isIdent(se.X, env.recvName)
	}
	if isCall(e) {
		return true
	}
	id, ok := stripParens(e).(*ast.Ident)
	if !ok {
		return false
	}
	obj := fc.info.Uses[id]
	if obj == nil {
		return false
	}
	// the definitions of the variable anywhere in package ast (it is local, so they are all in one function)
	nDefs, good := 0, true
	for _, f := range fc.c.pkg("internal/ast").Syntax {
		ast.Inspect(f, func(n ast.Node) bool {
			as, ok := n.(*ast.AssignStmt)
			if !ok {
				return true
			}
			for i, l := range as.Lhs {
				lid, ok := l.(*ast.Ident)
				if !ok || (fc.info.Defs[lid] != obj && fc.info.Uses[lid] != obj) {
					continue
				}
				nDefs++
				if len(as.Lhs) != len(as.Rhs) || !isCall(as.Rhs[i]) {
					good = false
				}
			}
			return true
		})
	}
	return nDefs == 1 && good
}
