package main

import (
	"go/constant"
	"fmt"
	"go/ast"
	"go/token"
	"go/types"
	"golang.org/x/tools/go/ssa"
	"os"
	"sort"
	"strings"
)

// R-VALCONS (C05, C09): who constructs which kind of value, and which conversion format is used where.

func init() {
	register("R-VALCONS", "value construction and conversion discipline: (1) input-derived text becomes a numeric-string value (constructor numStr) at exactly the producers the AWK value model names - field/record access, the getline forms that store into a variable or array element, split(), ARGV, ENVIRON, Vars/-v/var=value assignments and FILENAME - and nowhere else; in each getline-into-target handler the line read is passed only to numStr, setLine or setField; (2) number-to-string conversion goes through value.str with CONVFMT everywhere (interp.toString) except in print's argument writer, which alone uses OFMT; no other function reads the OFMT field or calls value.str directly; (3) isTrueStr and boolean classify input-derived text with the same whole-string recogniser, and num() uses the prefix parser", ruleValCons)
}

func ruleValCons(c *Ctx) {
	producerStoresNumStr(c)
	p := c.pkg("interp")
	info := p.TypesInfo
	vm := buildVMModel(c)
	// (1) numStr call sites by enclosing function / VM clause
	type site struct {
		fn, clause string
		pos        token.Pos
		lparen     token.Pos
	}
	var sites []site
	clauseOf := func(pos token.Pos) string {
		for n, cc := range vm.clauses {
			if cc.Pos() <= pos && pos < cc.End() {
				return n
			}
		}
		return ""
	}
	for _, fd := range c.allFuncDecls("interp") {
		if fd.Body == nil {
			continue
		}
		ast.Inspect(fd.Body, func(n ast.Node) bool {
			call, ok := n.(*ast.CallExpr)
			if !ok || !isIdent(call.Fun, "numStr") {
				return true
			}
			if f, ok := info.Uses[call.Fun.(*ast.Ident)].(*types.Func); !ok || f.Pkg() != p.Types {
				return true
			}
			sites = append(sites, site{declName(fd), clauseOf(call.Pos()), call.Pos(), call.Lparen})
			return true
		})
	}
	allowedFn := map[string]string{
		"interp.getField":         "fields and $0 read from input",
		"interp.split":            "split() pieces",
		"interp.setExecuteConfig": "ARGV and ENVIRON",
		"interp.setVarByName":     "Vars / -v / var=value operands",
		"interp.setFile":          "FILENAME",
	}
	allowedClause := map[string]bool{"GetlineGlobal": true, "GetlineLocal": true, "GetlineSpecial": true, "GetlineArray": true}
	seenFn := map[string]int{}
	seenClause := map[string]int{}
	for _, s := range sites {
		key := "numStr:" + s.fn
		if s.clause != "" {
			key += ":" + s.clause
		}
		switch {
		case s.fn == "interp.execute" && allowedClause[s.clause]:
			seenClause[s.clause]++
			c.ok(key, s.pos, "getline target receives a numeric-string value")
		case allowedFn[s.fn] != "":
			seenFn[s.fn]++
			c.ok(key, s.pos, "producer of input-derived values: %s", allowedFn[s.fn])
		case numStrProducerOf(c, s.fn, s.lparen, allowedFn) != "":
			// the text comes in through a parameter, and at every call the argument is what a producer returned: the
			// construction belongs to that producer (its pieces are stored by a helper of their own)
			pr := numStrProducerOf(c, s.fn, s.lparen, allowedFn)
			seenFn[pr]++
			c.ok(key, s.pos, "the text constructed here is, at every call of %s, the result of %s: %s", s.fn, pr, allowedFn[pr])
		default:
			c.bad(key, s.pos, "numStr (numeric-string constructor) is used in %s %s, which is not one of the producers of input-derived values: a computed or constant value would compare numerically when it should compare as a string", s.fn, s.clause)
		}
	}
	var missing []string
	for f := range allowedFn {
		if seenFn[f] == 0 {
			missing = append(missing, f)
		}
	}
	for cl := range allowedClause {
		if seenClause[cl] == 0 {
			missing = append(missing, "execute:"+cl)
		}
	}
	sort.Strings(missing)
	c.check(len(missing) == 0, "numStr:producers-complete", token.NoPos, "every producer of input-derived values constructs numeric strings", fmt.Sprintf("producers %v no longer construct numeric-string values: input that looks numeric would compare as a string (or a plain string constructor is used for input text)", missing))
	c.atLeast("numStr construction sites", len(sites), 12)
	// (1b) the compiler never turns a number into its string form ahead of time, except through an integer
	// conversion (whose text does not depend on CONVFMT; R-F2I decides that the value is an integer there): CONVFMT
	// is a run-time setting, so a constant subscript or operand formatted at compile time would name a different
	// string than the same number held in a variable
	{
		nFns, bad := 0, 0
		// only what Compile can reach (the disassembler may print numbers as it likes)
		reach := map[*ssa.Function]bool{}
		var visit func(f *ssa.Function)
		visit = func(f *ssa.Function) {
			if f == nil || reach[f] || len(f.Blocks) == 0 || f.Pkg == nil || f.Pkg.Pkg.Path() != modPath+"/internal/compiler" {
				return
			}
			reach[f] = true
			for _, a := range f.AnonFuncs {
				visit(a)
			}
			allInstrs(f, func(in ssa.Instruction) {
				if ci, ok := in.(ssa.CallInstruction); ok {
					visit(ci.Common().StaticCallee())
				}
			})
		}
		visit(c.ssaFunc("internal/compiler", "Compile"))
		for _, fn := range c.srcFuncs("internal/compiler") {
			fn := fn
			if len(fn.Blocks) == 0 || !reach[fn] {
				continue
			}
			nFns++
			allInstrs(fn, func(in ssa.Instruction) {
				call, ok := in.(ssa.CallInstruction)
				if !ok {
					return
				}
				cal := call.Common().StaticCallee()
				if cal == nil || cal.Pkg == nil {
					return
				}
				pk, nm := cal.Pkg.Pkg.Path(), cal.Name()
				formats := (pk == "strconv" && (nm == "FormatFloat" || nm == "AppendFloat")) ||
					(pk == "fmt" && (nm == "Sprintf" || nm == "Sprint" || nm == "Sprintln" || nm == "Fprintf" || nm == "Appendf"))
				if !formats {
					return
				}
				// is a floating-point value among the arguments (directly or boxed into the variadic list)?
				hasFloat := false
				var walk func(v ssa.Value, d int)
				walk = func(v ssa.Value, d int) {
					if d > 4 || v == nil {
						return
					}
					if b, ok := v.Type().Underlying().(*types.Basic); ok && b.Info()&types.IsFloat != 0 {
						if _, isK := v.(*ssa.Const); !isK {
							hasFloat = true
						}
					}
					switch x := v.(type) {
					case *ssa.MakeInterface:
						walk(x.X, d+1)
					case *ssa.Slice:
						if al, ok := x.X.(*ssa.Alloc); ok && al.Referrers() != nil {
							for _, r := range *al.Referrers() {
								if ia, ok := r.(*ssa.IndexAddr); ok && ia.Referrers() != nil {
									for _, r2 := range *ia.Referrers() {
										if st, ok := r2.(*ssa.Store); ok {
											walk(st.Val, d+1)
										}
									}
								}
							}
						}
					}
				}
				for _, a := range call.Common().Args {
					walk(a, 0)
				}
				if !hasFloat {
					return
				}
				// error and panic messages are not program values
				if callResultOnlyInPanic(in) {
					return
				}
				bad++
				c.bad("compile-time-format:"+fnKey(fn)+":"+pk+"."+nm, in.Pos(), "%s formats a floating-point number while compiling (%s.%s): the string form of a non-integer number depends on CONVFMT at run time, so a constant formatted ahead of time names a different string (array subscript, concatenation operand) than the same number held in a variable", fnKey(fn), pk, nm)
			})
		}
		if bad == 0 {
			if nFns < 10 {
				c.undecided("compile-time-format", token.NoPos, "only %d functions reachable from compiler.Compile: the entry point was not found", nFns)
			} else {
				c.ok("compile-time-format", token.NoPos, "no function reachable from compiler.Compile (%d scanned) formats a floating-point number", nFns)
			}
		}
	}
	// in each getline-into-target clause the line is used only as numStr(line) / setLine / setField argument
	for _, cl := range []string{"Getline", "GetlineField", "GetlineGlobal", "GetlineLocal", "GetlineSpecial", "GetlineArray"} {
		cc := vm.clauses[cl]
		if cc == nil {
			c.undecided("getline-line:"+cl, token.NoPos, "clause %s not found", cl)
			continue
		}
		// the variable bound to getline's second result
		var lineObj types.Object
		for _, s := range cc.Body {
			if as, ok := s.(*ast.AssignStmt); ok && len(as.Lhs) == 3 && len(as.Rhs) == 1 {
				if call, ok := as.Rhs[0].(*ast.CallExpr); ok {
					if se, ok := call.Fun.(*ast.SelectorExpr); ok && se.Sel.Name == "getline" {
						if id, ok := as.Lhs[1].(*ast.Ident); ok {
							lineObj = info.Defs[id]
						}
					}
				}
			}
		}
		body := cc.Body
		if lineObj == nil {
			// the read happens in a helper that calls the function literal given here with the line: the literal's
			// parameter is the line
			if _, lit := getlineDelegate(c, vm, cc); lit != nil && len(lit.Type.Params.List) == 1 && len(lit.Type.Params.List[0].Names) == 1 {
				lineObj = info.Defs[lit.Type.Params.List[0].Names[0]]
				body = lit.Body.List
			}
		}
		if lineObj == nil {
			c.undecided("getline-line:"+cl, cc.Pos(), "line result of p.getline not found in %s", cl)
			continue
		}
		bad := ""
		uses := 0
		var stack []ast.Node
		ast.Inspect(&ast.BlockStmt{List: body}, func(n ast.Node) bool {
			if n == nil {
				stack = stack[:len(stack)-1]
				return true
			}
			stack = append(stack, n)
			id, ok := n.(*ast.Ident)
			if !ok || info.Uses[id] != lineObj {
				return true
			}
			uses++
			// parent must be a call numStr(line) / p.setLine(line, ..) / p.setField(i, line)
			if len(stack) >= 2 {
				if call, ok := stack[len(stack)-2].(*ast.CallExpr); ok {
					name := ""
					switch f := call.Fun.(type) {
					case *ast.Ident:
						name = f.Name
					case *ast.SelectorExpr:
						name = f.Sel.Name
					}
					if name == "numStr" || name == "setLine" || name == "setField" {
						return true
					}
					// a helper of the interpreter that hands its string parameter on to one of those and does nothing
					// else with it
					if f := calleeOf(info, call); f != nil {
						for ai, a := range call.Args {
							if a == ast.Expr(id) && lineForwarder(c, info, f, ai, 0) {
								return true
							}
						}
					}
					bad = name + "(line)"
					return true
				}
			}
			bad = "a use outside a constructor call"
			return true
		})
		c.check(bad == "" && uses > 0, "getline-line:"+cl, cc.Pos(), cl+": the line read is passed only to numStr/setLine/setField", cl+": the line read by getline is passed to "+bad+" instead of becoming a numeric-string value (numeric-looking input would then compare as a string)")
	}

	// (2) conversion format discipline
	_, st := c.structType("interp", "interp")
	var ofmt, convfmt *types.Var
	sp := specialFieldMap(c)
	if f := sp["V_OFMT"]; len(f) > 0 {
		ofmt = fieldByName(st, f[0])
	}
	if f := sp["V_CONVFMT"]; len(f) > 0 {
		convfmt = fieldByName(st, f[0])
	}
	if ofmt == nil || convfmt == nil {
		c.undecided("anchor:OFMT", token.NoPos, "storage of OFMT/CONVFMT not found through getSpecial")
		return
	}
	// who may read OFMT: the accessors of the variable, and print's argument writers - by role: the method the
	// Print opcode hands its argument list to, and every function whose only callers are such writers
	okReaders := map[string]bool{"interp.getSpecial": true, "interp.setSpecial": true, "newInterp": true}
	printWriters := map[string]bool{}
	if vm := buildVMModel(c); vm != nil {
		if cc := vm.clauses["Print"]; cc != nil {
			ast.Inspect(cc, func(n ast.Node) bool {
				call, ok := n.(*ast.CallExpr)
				if !ok {
					return true
				}
				f := calleeOf(info, call)
				if f == nil || f.Pkg() != p.Types {
					return true
				}
				sig := f.Type().(*types.Signature)
				direct := false
				for i := 0; i < sig.Params().Len(); i++ {
					if sl, ok := sig.Params().At(i).Type().Underlying().(*types.Slice); ok && isNamed(sl.Elem(), modPath+"/interp", "value") {
						printWriters["interp."+f.Name()] = true
						direct = true
					}
				}
				if !direct {
					// the opcode's work moved into a helper that takes the arguments off the stack itself: what that
					// helper hands the argument list to - on the branches it can take with the boolean constants
					// passed here (a helper shared with printf takes a flag)
					for _, hd := range c.allFuncDecls("interp") {
						if info.Defs[hd.Name] != types.Object(f) || hd.Body == nil {
							continue
						}
						bind := map[types.Object]bool{}
						pi := 0
						for _, fl := range hd.Type.Params.List {
							for _, nm := range fl.Names {
								if pi < len(call.Args) {
									if tv, ok := info.Types[call.Args[pi]]; ok && tv.Value != nil && tv.Value.Kind() == constant.Bool {
										bind[info.Defs[nm]] = constant.BoolVal(tv.Value)
									}
								}
								pi++
							}
						}
						var visit func(n ast.Node)
						visit = func(n ast.Node) {
							ast.Inspect(n, func(m ast.Node) bool {
								if is, ok := m.(*ast.IfStmt); ok {
									cond, neg := is.Cond, false
									if u, ok := cond.(*ast.UnaryExpr); ok && u.Op == token.NOT {
										cond, neg = u.X, true
									}
									if id, ok := cond.(*ast.Ident); ok {
										if b, ok := bind[info.Uses[id]]; ok {
											if is.Init != nil {
												visit(is.Init)
											}
											if b != neg {
												visit(is.Body)
											} else if is.Else != nil {
												visit(is.Else)
											}
											return false
										}
									}
								}
								if c2, ok := m.(*ast.CallExpr); ok {
									if g := calleeOf(info, c2); g != nil && g.Pkg() == p.Types {
										gs := g.Type().(*types.Signature)
										for i := 0; i < gs.Params().Len(); i++ {
											if sl, ok := gs.Params().At(i).Type().Underlying().(*types.Slice); ok && isNamed(sl.Elem(), modPath+"/interp", "value") {
												printWriters["interp."+g.Name()] = true
											}
										}
									}
								}
								return true
							})
						}
						visit(hd.Body)
					}
				}
				return true
			})
		}
	}
	callersOf := map[string]map[string]bool{}
	for _, fd := range c.allFuncDecls("interp") {
		if fd.Body == nil {
			continue
		}
		from := declName(fd)
		ast.Inspect(fd.Body, func(n ast.Node) bool {
			if call, ok := n.(*ast.CallExpr); ok {
				if f := calleeOf(info, call); f != nil && f.Pkg() == p.Types {
					name := f.Name()
					if sig := f.Type().(*types.Signature); sig.Recv() != nil {
						if nm := named(deref(sig.Recv().Type())); nm != nil {
							name = nm.Obj().Name() + "." + name
						}
					}
					if callersOf[name] == nil {
						callersOf[name] = map[string]bool{}
					}
					callersOf[name][from] = true
				}
			}
			return true
		})
	}
	for changed := true; changed; {
		changed = false
		for callee, from := range callersOf {
			if printWriters[callee] || len(from) == 0 {
				continue
			}
			all := true
			for f := range from {
				if !printWriters[f] {
					all = false
				}
			}
			if all {
				printWriters[callee] = true
				changed = true
			}
		}
	}
	for w := range printWriters {
		okReaders[w] = true
	}
	// functions that assign the field are accessors too (reset code)
	for _, fd := range c.allFuncDecls("interp") {
		if fd.Body == nil {
			continue
		}
		ast.Inspect(fd.Body, func(n ast.Node) bool {
			if as, ok := n.(*ast.AssignStmt); ok {
				for _, l := range as.Lhs {
					if se, ok := l.(*ast.SelectorExpr); ok && info.Uses[se.Sel] == ofmt {
						okReaders[declName(fd)] = true
					}
				}
			}
			return true
		})
	}
	nOfmt := 0
	strCallers := map[string]string{}
	for _, fd := range c.allFuncDecls("interp") {
		if fd.Body == nil {
			continue
		}
		fname := declName(fd)
		ast.Inspect(fd.Body, func(n ast.Node) bool {
			switch x := n.(type) {
			case *ast.SelectorExpr:
				if info.Uses[x.Sel] == ofmt {
					nOfmt++
					c.check(okReaders[fname], "ofmt-reader:"+fname, x.Pos(), fname+" may use OFMT (print's argument writer / the variable's accessors)", fname+" reads the OFMT setting: only `print` formats numbers with OFMT, every other number-to-string conversion must use CONVFMT (semantically equivalent spellings of an expression would otherwise differ)")
				}
			case *ast.CallExpr:
				se, ok := x.Fun.(*ast.SelectorExpr)
				if !ok || se.Sel.Name != "str" || len(x.Args) != 1 {
					return true
				}
				if f, ok := info.Uses[se.Sel].(*types.Func); !ok || f.Pkg() != p.Types || f.Type().(*types.Signature).Recv() == nil {
					return true
				}
				arg := types.ExprString(x.Args[0])
				strCallers[fname] = arg
				var want string
				switch fname {
				case "interp.toString":
					want = "p." + convfmt.Name()
				case "value.String", "returnValue.Error":
					return true // debugging representations
				default:
					if printWriters[fname] {
						want = "p." + ofmt.Name()
						strCallers["<print writer>"] = arg
						break
					}
					// the format comes in as a parameter and every call of this function passes the CONVFMT setting: the
					// conversion is toString's, written where the interpreter is not at hand (a method of value)
					if id, ok := x.Args[0].(*ast.Ident); ok {
						pidx, i := -1, 0
						for _, fl := range fd.Type.Params.List {
							for _, nm := range fl.Names {
								if info.Defs[nm] == info.Uses[id] {
									pidx = i
								}
								i++
							}
						}
						if pidx >= 0 {
							nSites, all := 0, true
							for _, hd := range c.allFuncDecls("interp") {
								if hd.Body == nil {
									continue
								}
								ast.Inspect(hd.Body, func(m ast.Node) bool {
									c2, ok := m.(*ast.CallExpr)
									if !ok {
										return true
									}
									if g := calleeOf(info, c2); g != nil && info.Defs[fd.Name] == types.Object(g) && pidx < len(c2.Args) {
										nSites++
										a2, ok := c2.Args[pidx].(*ast.SelectorExpr)
										if !ok || info.Uses[a2.Sel] != convfmt {
											all = false
										}
									}
									return true
								})
							}
							if nSites > 0 && all {
								c.ok("str-caller:"+fname, x.Pos(), "%s calls value.str with a format parameter that is the CONVFMT setting at each of its %d call site(s)", fname, nSites)
								return true
							}
						}
					}
					c.bad("str-caller:"+fname, x.Pos(), "%s converts a number to a string by calling value.str(%s) directly: conversions must go through interp.toString (CONVFMT); only print uses OFMT", fname, arg)
					return true
				}
				c.check(arg == want, "str-caller:"+fname, x.Pos(), fname+" calls value.str("+arg+")", fname+" calls value.str("+arg+"), expected "+want)
			}
			return true
		})
	}
	c.atLeast("readers of the OFMT field", nOfmt, 2)
	c.check(strCallers["interp.toString"] != "" && strCallers["<print writer>"] != "" && len(printWriters) > 0, "str-callers-present", token.NoPos, "toString (CONVFMT) and print's argument writer (OFMT) are the conversion points", "toString / print's argument writer no longer call value.str: conversion points moved, rule anchors lost")

	// (3) recognisers
	rec := map[string]string{}
	for _, fn := range []string{"value.isTrueStr", "value.boolean", "value.num"} {
		fd := c.funcDecl("interp", fn)
		if fd == nil {
			c.undecided("anchor:"+fn, token.NoPos, "%s not found", fn)
			continue
		}
		// which recogniser the function classifies text with: its own calls, or those of the methods of value it
		// delegates to (boolean defined through isTrueStr uses isTrueStr's recogniser)
		seenCalls := map[string]bool{}
		var collect func(d *ast.FuncDecl, depth int)
		collect = func(d *ast.FuncDecl, depth int) {
			if d == nil || d.Body == nil || depth > 2 {
				return
			}
			ast.Inspect(d.Body, func(n ast.Node) bool {
				call, ok := n.(*ast.CallExpr)
				if !ok {
					return true
				}
				if id, ok := call.Fun.(*ast.Ident); ok && strings.HasPrefix(id.Name, "parseFloat") {
					seenCalls[id.Name] = true
				}
				if f := calleeOf(info, call); f != nil && f.Pkg() == p.Types {
					if sig, ok := f.Type().(*types.Signature); ok && sig.Recv() != nil && isNamed(sig.Recv().Type(), modPath+"/interp", "value") {
						for _, d2 := range c.allFuncDecls("interp") {
							if info.Defs[d2.Name] == types.Object(f) && d2 != d {
								collect(d2, depth+1)
							}
						}
					}
				}
				return true
			})
		}
		collect(fd, 0)
		var calls []string
		for k := range seenCalls {
			calls = append(calls, k)
		}
		sort.Strings(calls)
		rec[fn] = strings.Join(calls, ",")
	}
	c.check(rec["value.isTrueStr"] != "" && rec["value.isTrueStr"] == rec["value.boolean"], "recogniser:isTrueStr=boolean", token.NoPos,
		"isTrueStr and boolean use the same whole-string recogniser ("+rec["value.boolean"]+")", "isTrueStr uses "+rec["value.isTrueStr"]+" but boolean uses "+rec["value.boolean"]+": a numeric-looking input string would be a number in comparisons and something else in truth tests")
	c.check(rec["value.num"] == "parseFloatPrefix", "recogniser:num", token.NoPos, "num() uses the prefix parser", "num() does not use the prefix parser (uses "+rec["value.num"]+")")
	// in the numeric-string case of isTrueStr and boolean nothing is decided before the recogniser has been
	// consulted: the method is specialised to v.typ == typeNumStr on the SSA form (branches on the type field
	// decided, others pruned); with the blocks that call parseFloat removed, no return may stay reachable
	numStrVal := int64(-1)
	for _, k := range c.constsOfType("interp", "valueType") {
		if k.Name() == "typeNumStr" {
			if v, ok := constantInt(k); ok {
				numStrVal = v
			}
		}
	}
	for _, fn := range []string{"value.isTrueStr", "value.boolean"} {
		sf := c.ssaFunc("interp", fn)
		if sf == nil || numStrVal < 0 {
			c.undecided("recogniser-shape:"+fn, token.NoPos, "%s / typeNumStr not found on the SSA form", fn)
			continue
		}
		isTypField := func(v ssa.Value) (int64, bool) {
			switch x := v.(type) {
			case *ssa.Field:
				if fieldNameOf(x.X.Type(), x.Field) == "typ" {
					return numStrVal, true
				}
			case *ssa.UnOp:
				if fa, ok := x.X.(*ssa.FieldAddr); ok && x.Op == token.MUL {
					if f, _ := fieldOfAddr(fa); f != nil && f.Name() == "typ" {
						return numStrVal, true
					}
				}
			}
			return 0, false
		}
		ctx := &specCtx{fn: sf, sp: &spec{pkg: sf.Pkg, ints: map[string]int64{}, extraInt: isTypField, c: c}, bind: map[*ssa.Parameter]specBind{}}
		var cuts []cutEdge
		nCalls := 0
		// a call of the recogniser, or of a method of value that itself classifies with it (boolean through isTrueStr)
		callsRecogniser := func(cal *ssa.Function) bool {
			if cal == nil {
				return false
			}
			if cal.Name() == "parseFloat" {
				return true
			}
			return cal.Pkg == sf.Pkg && cal != sf && cal.Signature.Recv() != nil && isNamed(cal.Signature.Recv().Type(), modPath+"/interp", "value") && callsWithin(cal, "parseFloat", 1)
		}
		for b := range ctx.reached() {
			calls := false
			for _, in := range b.Instrs {
				if call, ok := in.(*ssa.Call); ok {
					if callsRecogniser(call.Call.StaticCallee()) {
						calls = true
					}
				}
			}
			if calls {
				nCalls++
				for i := range b.Succs {
					cuts = append(cuts, cutEdge{b, i})
				}
			}
		}
		// returns reachable without leaving a parseFloat block
		early := 0
		for _, r := range returnsIn(ctx.reachable(sf.Blocks[0], cuts)) {
			callsHere := false
			for _, in := range r.Block().Instrs {
				if call, ok := in.(*ssa.Call); ok {
					if callsRecogniser(call.Call.StaticCallee()) {
						callsHere = true
					}
				}
			}
			if !callsHere {
				early++
			}
		}
		c.check(nCalls > 0 && early == 0, "recogniser-shape:"+fn, sf.Pos(), fn+": for input-derived text every outcome is decided after parseFloat has classified it", fn+" decides the outcome for some input-derived text before (or without) consulting parseFloat: such text is classified differently by comparisons and by truth tests")
	}
	// print's writers never convert with CONVFMT
	{
		bad := token.NoPos
		nW := 0
		for _, fd := range c.allFuncDecls("interp") {
			if fd.Body == nil || !printWriters[declName(fd)] {
				continue
			}
			nW++
			ast.Inspect(fd.Body, func(n ast.Node) bool {
				if call, ok := n.(*ast.CallExpr); ok {
					if se, ok := call.Fun.(*ast.SelectorExpr); ok && se.Sel.Name == "toString" {
						bad = call.Pos()
					}
				}
				return true
			})
		}
		c.check(bad == token.NoPos && nW > 0, "print-uses-ofmt", bad, "print's argument writer converts every argument with OFMT, in every output mode", "print's argument writer converts an argument with toString (CONVFMT): in that output mode `print` ignores OFMT")
	}
	// (3b) number -> string: the digits printed on the integer path of value.str come from the same plain
	// float->int64 conversion whose round trip the guard tests (R-F2I decides that guard); a clamping helper in
	// its place makes the guard true for values that are not integers of that size (2^63 prints as MaxInt64)
	if sf := c.ssaFunc("interp", "value.str"); sf != nil {
		nFmt, good := 0, true
		// value.str and the functions of the package it hands the conversion to (a format type with a method of its own)
		var reach []*ssa.Function
		seenR := map[*ssa.Function]bool{}
		var visitR func(f *ssa.Function, d int)
		visitR = func(f *ssa.Function, d int) {
			if f == nil || seenR[f] || len(f.Blocks) == 0 || f.Pkg != sf.Pkg || d > 3 {
				return
			}
			seenR[f] = true
			reach = append(reach, f)
			allInstrs(f, func(in ssa.Instruction) {
				if ci, ok := in.(ssa.CallInstruction); ok {
					visitR(ci.Common().StaticCallee(), d+1)
				}
			})
		}
		visitR(sf, 0)
		for _, rf := range reach {
		allInstrs(rf, func(in ssa.Instruction) {
			call, ok := in.(*ssa.Call)
			if !ok {
				return
			}
			if fo := calleeObj(call); fo == nil || funcFullName(fo) != "strconv.FormatInt" || len(call.Call.Args) < 1 {
				return
			}
			nFmt++
			cv, ok := call.Call.Args[0].(*ssa.Convert)
			if !ok || !isFloatToInt(cv) {
				good = false
				return
			}
			if _, ok := roundTripGuarded(cv); !ok {
				good = false
			}
		})
		}
		c.check(nFmt > 0 && good, "str-int-path", sf.Pos(), "value.str prints integer digits only for int64(n) under the round-trip test n == float64(int64(n))", "value.str formats an integer that is not the plain int64 conversion of the number guarded by its own round-trip test (e.g. a saturating helper): numbers at or beyond 2^63 print as a clamped integer instead of going through OFMT/CONVFMT")
	} else {
		c.undecided("str-int-path", token.NoPos, "value.str not found on the SSA form")
	}
	// (4) the whole-string recogniser and the prefix converter agree on what surrounds and what bounds a number
	ruleNumParse(c)
}

// roundTripGuarded: cv (float -> int) is dominated by the test x == float64(int(x)) on the same operand.
func roundTripGuarded(cv *ssa.Convert) (*ssa.BasicBlock, bool) {
	fn := cv.Parent()
	k := srcKey(cv.X, 0)
	for _, b := range fn.Blocks {
		if len(b.Instrs) == 0 {
			continue
		}
		ifi, ok := b.Instrs[len(b.Instrs)-1].(*ssa.If)
		if !ok {
			continue
		}
		bo, ok := ifi.Cond.(*ssa.BinOp)
		if !ok || (bo.Op != token.EQL && bo.Op != token.NEQ) {
			continue
		}
		for _, side := range []ssa.Value{bo.X, bo.Y} {
			back, ok := side.(*ssa.Convert)
			if !ok {
				continue
			}
			inner, ok := back.X.(*ssa.Convert)
			if !ok || !isFloatToInt(inner) || srcKey(inner.X, 0) != k || !types.Identical(inner.Type(), cv.Type()) {
				continue
			}
			idx := 0
			if bo.Op == token.NEQ {
				idx = 1
			}
			if b.Dominates(cv.Block()) && !reachableAvoiding(b.Succs[1-idx], b)[cv.Block()] {
				return b, true
			}
		}
	}
	return nil, false
}

// ruleNumParse: parseFloat (is this text a number?) and parseFloatPrefix (which number?) are siblings:
// a text the first accepts must be converted in full by the second.
func ruleNumParse(c *Ctx) {
	rec := c.funcDecl("interp", "parseFloat")
	conv := c.funcDecl("interp", "parseFloatPrefix")
	if rec == nil || conv == nil {
		c.undecided("anchor:parseFloat", token.NoPos, "parseFloat / parseFloatPrefix not found")
		return
	}
	info := c.pkg("interp").TypesInfo
	// white space: which classifier each side uses
	var wsOfD func(fd *ast.FuncDecl, depth int, seen map[*ast.FuncDecl]bool) (tables []string, calls []string)
	wsOf := func(fd *ast.FuncDecl) (tables []string, calls []string) {
		return wsOfD(fd, 0, map[*ast.FuncDecl]bool{})
	}
	wsOfD = func(fd *ast.FuncDecl, depth int, seen map[*ast.FuncDecl]bool) (tables []string, calls []string) {
		if seen[fd] || depth > 3 || fd.Body == nil {
			return
		}
		seen[fd] = true
		ast.Inspect(fd.Body, func(n ast.Node) bool {
			// the helpers of the package it uses (a scanner struct's methods, a predicate) classify for it
			if call, ok := n.(*ast.CallExpr); ok {
				if f := calleeOf(info, call); f != nil && f.Pkg() == c.pkg("interp").Types {
					for _, d := range c.allFuncDecls("interp") {
						if info.Defs[d.Name] == types.Object(f) {
							t2, c2 := wsOfD(d, depth+1, seen)
							tables = append(tables, t2...)
							calls = append(calls, c2...)
						}
					}
				}
			}
			// ... also when the predicate is handed on as a function value (sc.skipRun(isSpace))
			if id, ok := n.(*ast.Ident); ok {
				if f, ok := info.Uses[id].(*types.Func); ok && f.Pkg() == c.pkg("interp").Types {
					for _, d := range c.allFuncDecls("interp") {
						if info.Defs[d.Name] == types.Object(f) && d != fd {
							t2, c2 := wsOfD(d, depth+1, seen)
							tables = append(tables, t2...)
							calls = append(calls, c2...)
						}
					}
				}
			}
			switch x := n.(type) {
			case *ast.IndexExpr:
				if id, ok := x.X.(*ast.Ident); ok {
					if v, ok := info.Uses[id].(*types.Var); ok && v.Parent() == v.Pkg().Scope() && strings.Contains(strings.ToLower(v.Name()), "space") {
						tables = append(tables, v.Name())
					}
				}
			case *ast.CallExpr:
				if se, ok := x.Fun.(*ast.SelectorExpr); ok {
					if f, ok := info.Uses[se.Sel].(*types.Func); ok && f.Pkg() != nil {
						full := f.Pkg().Path() + "." + f.Name()
						switch full {
						case "strings.TrimSpace", "strings.TrimFunc", "strings.TrimLeftFunc", "strings.TrimRightFunc", "unicode.IsSpace", "strings.Fields", "bytes.TrimSpace":
							calls = append(calls, full)
						}
					}
				}
			}
			return true
		})
		return
	}
	rt, rc := wsOf(rec)
	ct, cc := wsOf(conv)
	same := len(rc) == 0 && len(cc) == 0 && len(rt) > 0 && len(ct) > 0
	if same {
		for _, t := range rt {
			if t != ct[0] {
				same = false
			}
		}
		for _, t := range ct {
			if t != ct[0] {
				same = false
			}
		}
	}
	c.check(same, "numparse:whitespace", rec.Pos(),
		"both skip surrounding blanks with the same table",
		"parseFloat and parseFloatPrefix do not skip surrounding blanks by the same table (recogniser: tables "+strings.Join(rt, ",")+" calls "+strings.Join(rc, ",")+"; converter: tables "+strings.Join(ct, ",")+" calls "+strings.Join(cc, ",")+"): text with a blank only one of them knows is a number in comparisons and 0 in arithmetic")
	// range: the converter returns what ParseFloat returns on a range error (its error is discarded); the recogniser must not reject it
	convDiscards := false
	ast.Inspect(conv.Body, func(n ast.Node) bool {
		if as, ok := n.(*ast.AssignStmt); ok && len(as.Lhs) == 2 && len(as.Rhs) == 1 && isIdent(as.Lhs[1], "_") {
			if call, ok := as.Rhs[0].(*ast.CallExpr); ok {
				if se, ok := call.Fun.(*ast.SelectorExpr); ok && se.Sel.Name == "ParseFloat" {
					convDiscards = true
				}
			}
		}
		return true
	})
	// the recogniser evaluated for "strconv.ParseFloat reported a range error" (no underscore, no exponent
	// letter in the text): every path must accept (return a nil error)
	recAccepts := false
	if sf, ipkg := c.ssaFunc("interp", "parseFloat"), c.ssaPkg("interp"); sf != nil && ipkg != nil {
		e := &sengine{pkg: ipkg, ctx: c}
		e.call = func(p *spath, fr *sframe, call *ssa.Call, callee *ssa.Function, args []iv) (iv, callAction) {
			fo := calleeObj(call)
			if fo == nil {
				return iv{}, callDefault
			}
			switch funcFullName(fo) {
			case "strconv.ParseFloat":
				return ivTuple(ivSym("n"), ivSym("err")), callHandled
			case "strings.IndexByte", "strings.IndexRune", "strings.Index", "strings.IndexAny":
				return ivInt(-1), callHandled
			case "strings.ContainsRune", "strings.Contains", "strings.ContainsAny":
				return ivBool(false), callHandled
			}
			return iv{}, callDefault
		}
		e.typeAssert = func(fr *sframe, x *ssa.TypeAssert, v iv) (iv, bool) {
			if v.k == 's' && v.s == "err" {
				if nm := named(deref(x.AssertedType)); nm != nil && nm.Obj().Name() == "NumError" {
					if x.CommaOk {
						return ivTuple(ivSym("numErr"), ivBool(true)), true
					}
					return ivSym("numErr"), true
				}
			}
			return iv{}, false
		}
		e.load = func(p *spath, fr *sframe, addr iv, in *ssa.UnOp) (iv, bool) {
			if addr.k == 'p' && addr.s == "numErr.Err" {
				return ivSym("ErrRange"), true
			}
			if g, ok := in.X.(*ssa.Global); ok && g.Name() == "ErrRange" {
				return ivSym("ErrRange"), true
			}
			return iv{}, false
		}
		e.binop = func(op token.Token, a, b iv) (iv, bool) {
			if op != token.EQL && op != token.NEQ {
				return iv{}, false
			}
			switch {
			case a.k == 's' && b.k == 's':
				return ivBool((a.s == b.s) == (op == token.EQL)), true
			case (a.k == 's' && b.k == 'n') || (a.k == 'n' && b.k == 's'):
				return ivBool(op == token.NEQ), true // a symbol stands for a non-nil value
			}
			return iv{}, false
		}
		e.enter = func(callee *ssa.Function, args []iv) bool { return false }
		e.startAt(sf, sf.Blocks[0], nil)
		n, good := 0, true
		for _, o := range e.outcomes {
			if o.panicked {
				continue
			}
			n++
			if !(o.ret.k == 'u' && len(o.ret.tup) == 2 && o.ret.tup[1].k == 'n') {
				good = false
			}
		}
		recAccepts = n > 0 && good && len(e.problems) == 0
		if os.Getenv("SVERIF_DEBUG") != "" {
			for _, o := range e.outcomes {
				fmt.Printf("DEBUG numparse outcome: panicked=%v ret=%+v problems=%v\n", o.panicked, o.ret, e.problems)
			}
		}
	}
	c.check(!convDiscards || recAccepts, "numparse:range", rec.Pos(),
		"a value out of float64's range is a number (infinity) on both sides",
		"parseFloatPrefix turns an out-of-range numeral into infinity (it discards ParseFloat's error) but parseFloat rejects it (no branch clears the error when it is strconv.ErrRange): the field 1e400 compares as a string yet is inf in arithmetic")
}

// lineForwarder: parameter number argIdx of the package function f is used only as an argument of numStr, setLine,
// setField or of another such forwarder.
func lineForwarder(c *Ctx, info *types.Info, f *types.Func, argIdx int, depth int) bool {
	if depth > 2 || f.Pkg() == nil || f.Pkg() != c.pkg("interp").Types {
		return false
	}
	var fd *ast.FuncDecl
	for _, d := range c.allFuncDecls("interp") {
		if info.Defs[d.Name] == types.Object(f) {
			fd = d
		}
	}
	if fd == nil || fd.Body == nil {
		return false
	}
	var prm types.Object
	i := 0
	for _, fl := range fd.Type.Params.List {
		for _, nm := range fl.Names {
			if i == argIdx {
				prm = info.Defs[nm]
			}
			i++
		}
	}
	if prm == nil {
		return false
	}
	okAll, uses := true, 0
	var stack []ast.Node
	ast.Inspect(fd.Body, func(n ast.Node) bool {
		if n == nil {
			stack = stack[:len(stack)-1]
			return true
		}
		stack = append(stack, n)
		id, ok := n.(*ast.Ident)
		if !ok || info.Uses[id] != prm {
			return true
		}
		uses++
		if len(stack) >= 2 {
			if call, ok := stack[len(stack)-2].(*ast.CallExpr); ok {
				name := ""
				switch fx := call.Fun.(type) {
				case *ast.Ident:
					name = fx.Name
				case *ast.SelectorExpr:
					name = fx.Sel.Name
				}
				if name == "numStr" || name == "setLine" || name == "setField" {
					return true
				}
				if g := calleeOf(info, call); g != nil {
					for ai, a := range call.Args {
						if a == ast.Expr(id) && lineForwarder(c, info, g, ai, depth+1) {
							return true
						}
					}
				}
			}
		}
		okAll = false
		return true
	})
	return okAll && uses > 0
}

// numStrProducerOf: the numStr call at lparen in function fnName takes its argument from (an element of) a parameter,
// and every static call of that function passes, for that parameter, the result of a call of one and the same
// function listed in producers: that function's name, else "".
func numStrProducerOf(c *Ctx, fnName string, lparen token.Pos, producers map[string]string) string {
	fn := c.ssaFunc("interp", fnName)
	if fn == nil {
		return ""
	}
	var arg ssa.Value
	allInstrs(fn, func(in ssa.Instruction) {
		if call, ok := in.(*ssa.Call); ok && call.Pos() == lparen && len(call.Call.Args) == 1 {
			arg = call.Call.Args[0]
		}
	})
	if arg == nil {
		return ""
	}
	var toParam func(v ssa.Value, d int) *ssa.Parameter
	toParam = func(v ssa.Value, d int) *ssa.Parameter {
		if d > 6 {
			return nil
		}
		switch x := v.(type) {
		case *ssa.Parameter:
			return x
		case *ssa.UnOp:
			if x.Op == token.MUL {
				if ia, ok := x.X.(*ssa.IndexAddr); ok {
					return toParam(ia.X, d+1)
				}
			}
		case *ssa.Slice:
			return toParam(x.X, d+1)
		case *ssa.Phi:
			var p *ssa.Parameter
			for _, e := range x.Edges {
				q := toParam(e, d+1)
				if q == nil || (p != nil && q != p) {
					return nil
				}
				p = q
			}
			return p
		}
		return nil
	}
	prm := toParam(arg, 0)
	if prm == nil {
		return ""
	}
	idx := -1
	for i, q := range fn.Params {
		if q == prm {
			idx = i
		}
	}
	if idx < 0 {
		return ""
	}
	var toCall func(v ssa.Value, d int) string
	toCall = func(v ssa.Value, d int) string {
		if d > 6 {
			return ""
		}
		switch x := v.(type) {
		case *ssa.Call:
			if g := x.Call.StaticCallee(); g != nil {
				k := g.Name()
				if g.Signature.Recv() != nil {
					if nm := named(g.Signature.Recv().Type()); nm != nil {
						k = nm.Obj().Name() + "." + g.Name()
					}
				}
				if producers[k] != "" {
					return k
				}
			}
		case *ssa.Extract:
			return toCall(x.Tuple, d+1)
		case *ssa.Phi:
			res := ""
			for _, e := range x.Edges {
				r := toCall(e, d+1)
				if r == "" || (res != "" && r != res) {
					return ""
				}
				res = r
			}
			return res
		}
		return ""
	}
	res, n := "", 0
	for _, caller := range c.srcFuncs("interp") {
		bad := false
		allInstrs(caller, func(in ssa.Instruction) {
			ci, ok := in.(ssa.CallInstruction)
			if !ok || ci.Common().StaticCallee() != fn || idx >= len(ci.Common().Args) {
				return
			}
			n++
			r := toCall(ci.Common().Args[idx], 0)
			if r == "" || (res != "" && r != res) {
				bad = true
			}
			res = r
		})
		if bad {
			return ""
		}
	}
	if n == 0 {
		return ""
	}
	return res
}

// callResultOnlyInPanic: the value of the call is used only to build the argument of a panic (an error message).
func callResultOnlyInPanic(in ssa.Instruction) bool {
	v, ok := in.(ssa.Value)
	if !ok || v.Referrers() == nil {
		return false
	}
	seen := map[ssa.Value]bool{}
	var only func(v ssa.Value, d int) bool
	only = func(v ssa.Value, d int) bool {
		if d > 5 || seen[v] {
			return d <= 5
		}
		seen[v] = true
		refs := v.Referrers()
		if refs == nil || len(*refs) == 0 {
			return false
		}
		for _, r := range *refs {
			switch x := r.(type) {
			case *ssa.Panic:
			case *ssa.MakeInterface:
				if !only(x, d+1) {
					return false
				}
			case *ssa.Call:
				// handed to an error constructor whose result is panicked
				if !only(x, d+1) {
					return false
				}
			case *ssa.DebugRef:
			default:
				return false
			}
		}
		return true
	}
	return only(v, 0)
}
