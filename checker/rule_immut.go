package main

import (
	"fmt"
	"go/token"
	"go/types"
	"sort"
	"strings"

	"golang.org/x/tools/go/ssa"
)

// R-IMMUT (C19): executing never writes into memory owned by the parsed Program,
// and package-level variables are never written after init.

func init() {
	register("R-IMMUT", "no store, map update/delete, append, copy destination or mutating call in package interp (and in the methods of parser.Program / compiler.Program) targets memory derived — through field/index/slice chains, loads, struct copies of slice headers, interp fields initialised from the Program, parameter passing and returns (flow-insensitive fixpoint) — from the *parser.Program given to New/ExecProgram; every external function that receives such a reference is in the tabled read-only set; package-level variables of the module are written only during package initialisation (incl. append into their spare capacity)", ruleImmut)
}

func hasRefs(t types.Type, depth int) bool {
	if depth > 6 {
		return true
	}
	switch u := t.Underlying().(type) {
	case *types.Pointer, *types.Slice, *types.Map, *types.Chan, *types.Signature, *types.Interface:
		return true
	case *types.Struct:
		for i := 0; i < u.NumFields(); i++ {
			if hasRefs(u.Field(i).Type(), depth+1) {
				return true
			}
		}
	case *types.Array:
		return hasRefs(u.Elem(), depth+1)
	case *types.Tuple:
		for i := 0; i < u.Len(); i++ {
			if hasRefs(u.At(i).Type(), depth+1) {
				return true
			}
		}
	}
	return false
}

// program-family types: a parameter of one of these is program-owned wherever it appears
func isProgramFamily(t types.Type) bool {
	s := types.TypeString(t, nil)
	s = strings.ReplaceAll(s, modPath+"/", "")
	switch s {
	case "*parser.Program", "*internal/compiler.Program", "[]internal/compiler.Opcode", "[][]internal/compiler.Opcode",
		"[]internal/compiler.Action", "internal/compiler.Action", "internal/compiler.Function", "[]internal/compiler.Function",
		"*internal/resolver.ResolvedProgram", "*internal/ast.Program", "parser.Program", "internal/compiler.Program":
		return true
	}
	return false
}

// external callees that may receive a program-derived reference: read-only by documentation
var immutReadOnly = map[string]string{
	"(*regexp.Regexp).MatchString":          "regexp methods other than Longest are safe for concurrent use",
	"(*regexp.Regexp).FindStringIndex":      "read-only",
	"(*regexp.Regexp).FindIndex":            "read-only",
	"(*regexp.Regexp).FindAllStringIndex":   "read-only",
	"(*regexp.Regexp).ReplaceAllStringFunc": "read-only",
	"(*regexp.Regexp).Split":                "read-only",
	"(*regexp.Regexp).String":               "read-only",
	"(*regexp.Regexp).Match":                "read-only",
	"(*regexp.Regexp).FindStringSubmatch":   "read-only",
	"strings.Join":                          "reads its slice argument",
	"fmt.Sprintf":                           "formats its arguments",
	"fmt.Fprintf":                           "formats its arguments",
	"fmt.Fprintln":                          "formats its arguments",
	"fmt.Fprint":                            "formats its arguments",
	"fmt.Sprint":                            "formats its arguments",
	"fmt.Errorf":                            "formats its arguments",
	"len":                                   "builtin",
	"cap":                                   "builtin",
}

var immutMutators = map[string]bool{
	"(*regexp.Regexp).Longest": true, "sort.Strings": true, "sort.Ints": true, "sort.Float64s": true, "sort.Slice": true,
	"sort.SliceStable": true, "sort.Sort": true, "sort.Stable": true, "math/rand.Shuffle": true,
}

type immutState struct {
	c         *Ctx
	derived   map[ssa.Value]bool
	allocT    map[*ssa.Alloc]bool
	fieldT    map[string]bool // tainted interp fields
	retT      map[*ssa.Function]bool
	fns       []*ssa.Function
	inScope   map[*ssa.Function]bool
	changed   bool
	globalsT  map[*ssa.Global]bool
	extraRoot map[ssa.Value]bool
}

func (s *immutState) mark(v ssa.Value) {
	if v == nil || s.derived[v] {
		return
	}
	s.derived[v] = true
	s.changed = true
}

// allocRoot: the local Alloc an address is rooted at (through FieldAddr/IndexAddr on arrays), or nil.
func allocRoot(v ssa.Value) *ssa.Alloc {
	for i := 0; i < 8; i++ {
		switch x := v.(type) {
		case *ssa.Alloc:
			return x
		case *ssa.FieldAddr:
			v = x.X
		case *ssa.IndexAddr:
			// only arrays live inside the alloc; a slice's elements live elsewhere
			if _, isPtrArr := x.X.Type().Underlying().(*types.Pointer); isPtrArr {
				v = x.X
			} else {
				return nil
			}
		default:
			return nil
		}
	}
	return nil
}

func (s *immutState) step(fn *ssa.Function) {
	for _, p := range fn.Params {
		if isProgramFamily(p.Type()) {
			s.mark(p)
		}
	}
	for _, p := range fn.FreeVars {
		if isProgramFamily(deref(p.Type())) || isProgramFamily(p.Type()) {
			s.mark(p)
		}
	}
	allInstrs(fn, func(in ssa.Instruction) {
		switch v := in.(type) {
		case *ssa.FieldAddr:
			if s.derived[v.X] {
				s.mark(v)
			}
		case *ssa.Field:
			if s.derived[v.X] && hasRefs(v.Type(), 0) {
				s.mark(v)
			}
		case *ssa.IndexAddr:
			if s.derived[v.X] {
				s.mark(v)
			}
		case *ssa.Index:
			if s.derived[v.X] && hasRefs(v.Type(), 0) {
				s.mark(v)
			}
		case *ssa.Slice:
			if s.derived[v.X] {
				s.mark(v)
			}
		case *ssa.Lookup:
			if s.derived[v.X] && hasRefs(v.Type(), 0) {
				s.mark(v)
			}
		case *ssa.UnOp:
			if v.Op == token.MUL {
				if !hasRefs(v.Type(), 0) {
					return
				}
				if s.derived[v.X] {
					s.mark(v)
				}
				if f, x := fieldOfAddr(v.X); f != nil && isInterp(x.Type()) {
					// the interpreter's own fields are tracked one by one (also while it is still a local being
					// filled in by its constructor)
					if s.fieldT[f.Name()] {
						s.mark(v)
					}
				} else if a := allocRoot(v.X); a != nil && s.allocT[a] {
					s.mark(v)
				}
				if g, ok := v.X.(*ssa.Global); ok && s.globalsT[g] {
					s.mark(v)
				}
			}
		case *ssa.Phi:
			for _, e := range v.Edges {
				if s.derived[e] {
					s.mark(v)
				}
			}
		case *ssa.ChangeType:
			if s.derived[v.X] {
				s.mark(v)
			}
		case *ssa.Convert:
			if s.derived[v.X] && hasRefs(v.Type(), 0) {
				s.mark(v)
			}
		case *ssa.MakeInterface:
			if s.derived[v.X] {
				s.mark(v)
			}
		case *ssa.TypeAssert:
			if s.derived[v.X] && hasRefs(v.Type(), 0) {
				s.mark(v)
			}
		case *ssa.Extract:
			if s.derived[v.Tuple] && hasRefs(v.Type(), 0) {
				s.mark(v)
			}
		case *ssa.Store:
			if s.derived[v.Val] {
				if f, x := fieldOfAddr(v.Addr); f != nil && isInterp(x.Type()) {
					if !s.fieldT[f.Name()] {
						s.fieldT[f.Name()] = true
						s.changed = true
					}
				} else if a := allocRoot(v.Addr); a != nil {
					if !s.allocT[a] {
						s.allocT[a] = true
						s.changed = true
					}
				}
			}
		case *ssa.MakeClosure:
			if cf, ok := v.Fn.(*ssa.Function); ok {
				for i, b := range v.Bindings {
					if s.derived[b] && i < len(cf.FreeVars) {
						s.mark(cf.FreeVars[i])
					}
				}
			}
		case *ssa.Return:
			for _, r := range v.Results {
				if s.derived[r] && !s.retT[fn] {
					s.retT[fn] = true
					s.changed = true
				}
			}
		}
		if call, ok := in.(ssa.CallInstruction); ok {
			cc := call.Common()
			if callee := cc.StaticCallee(); callee != nil && s.inScope[callee] {
				for i, a := range cc.Args {
					if s.derived[a] && i < len(callee.Params) {
						s.mark(callee.Params[i])
					}
				}
				if s.retT[callee] {
					if v, ok := in.(ssa.Value); ok && hasRefs(v.Type(), 0) {
						s.mark(v)
					}
				}
			}
			if cc.IsInvoke() && s.derived[cc.Value] {
				if node := s.c.callgraph().Nodes[fn]; node != nil {
					for _, e := range node.Out {
						if e.Site == call && s.inScope[e.Callee.Func] && len(e.Callee.Func.Params) > 0 {
							s.mark(e.Callee.Func.Params[0])
						}
					}
				}
			}
			// append(x, ...) result aliases x when capacity allows
			if b, ok := cc.Value.(*ssa.Builtin); ok && b.Name() == "append" && len(cc.Args) > 0 && s.derived[cc.Args[0]] {
				if v, ok := in.(ssa.Value); ok {
					s.mark(v)
				}
			}
		}
	})
}

func ruleImmut(c *Ctx) {
	s := &immutState{c: c, derived: map[ssa.Value]bool{}, allocT: map[*ssa.Alloc]bool{}, fieldT: map[string]bool{},
		retT: map[*ssa.Function]bool{}, inScope: map[*ssa.Function]bool{}, globalsT: map[*ssa.Global]bool{}}
	s.fns = append(s.fns, c.srcFuncs("interp")...)
	for _, f := range c.srcFuncs("parser") {
		if f.Signature.Recv() != nil && isNamed(f.Signature.Recv().Type(), modPath+"/parser", "Program") {
			s.fns = append(s.fns, f)
		}
	}
	// accessors the interpreter and the Program methods call into (construction code such as
	// Compile/Resolve/the parser is excluded: the Program is not shared while it is being built)
	for _, f := range c.srcFuncs("internal/compiler") {
		if r := f.Signature.Recv(); r != nil && (isNamed(r.Type(), modPath+"/internal/compiler", "Program") || isNamed(r.Type(), modPath+"/internal/compiler", "disassembler")) {
			s.fns = append(s.fns, f)
		}
	}
	for _, f := range c.srcFuncs("internal/resolver") {
		if r := f.Signature.Recv(); r != nil && (isNamed(r.Type(), modPath+"/internal/resolver", "ResolvedProgram") || f.Name() == "lookupVar") {
			s.fns = append(s.fns, f)
		}
	}
	for _, f := range c.srcFuncs("internal/ast") {
		if !strings.HasPrefix(f.Name(), "Walk") && !strings.HasPrefix(f.Name(), "walk") {
			s.fns = append(s.fns, f)
		}
	}
	for _, f := range s.fns {
		s.inScope[f] = true
	}
	for iter := 0; iter < 50; iter++ {
		s.changed = false
		for _, f := range s.fns {
			s.step(f)
		}
		if !s.changed {
			break
		}
	}
	c.stat("functions", len(s.fns))
	c.stat("derived-values", len(s.derived))
	var tf []string
	for f := range s.fieldT {
		tf = append(tf, f)
	}
	sort.Strings(tf)
	c.atLeast("interp fields holding program-owned references", len(tf), 4)
	c.trivial("program-fields", token.NoPos, "interp fields initialised from the Program: %s", strings.Join(tf, ","))

	nSites := 0
	for _, fn := range s.fns {
		fn := fn
		if fn.Name() == "newInterp" {
			// construction may store program references into the fresh interp (that is how the fields get tainted)
		}
		allInstrs(fn, func(in ssa.Instruction) {
			switch v := in.(type) {
			case *ssa.Store:
				if s.derived[v.Addr] {
					nSites++
					c.bad(fmt.Sprintf("store:%s:%s", fnKey(fn), describeAddr(v.Addr)), v.Pos(), "store through %s, which points into memory owned by the shared *parser.Program", describeAddr(v.Addr))
				}
			case *ssa.MapUpdate:
				if s.derived[v.Map] {
					nSites++
					c.bad(fmt.Sprintf("mapupdate:%s", fnKey(fn)), v.Pos(), "update of a map owned by the shared *parser.Program")
				}
			}
			call, ok := in.(ssa.CallInstruction)
			if !ok {
				return
			}
			cc := call.Common()
			if b, ok := cc.Value.(*ssa.Builtin); ok {
				switch b.Name() {
				case "delete", "copy":
					if len(cc.Args) > 0 && s.derived[cc.Args[0]] {
						nSites++
						c.bad(fmt.Sprintf("%s:%s", b.Name(), fnKey(fn)), in.Pos(), "%s into memory owned by the shared *parser.Program", b.Name())
					}
				case "append":
					if len(cc.Args) > 0 && s.derived[cc.Args[0]] {
						nSites++
						c.bad(fmt.Sprintf("append:%s", fnKey(fn)), in.Pos(), "append to a slice owned by the shared *parser.Program (may write into its spare capacity)")
					}
				}
				return
			}
			callee := cc.StaticCallee()
			var full string
			if callee != nil {
				full = callee.String()
			} else if cc.IsInvoke() {
				full = "(" + types.TypeString(cc.Value.Type(), nil) + ")." + cc.Method.Name()
			}
			if callee != nil && s.inScope[callee] {
				return // analysed interprocedurally
			}
			for i, a := range cc.Args {
				if !s.derived[a] || !hasRefs(a.Type(), 0) {
					continue
				}
				nSites++
				key := fmt.Sprintf("extcall:%s:%s:arg%d", fnKey(fn), full, i)
				if immutMutators[full] {
					c.bad(key, in.Pos(), "%s mutates its argument, which is owned by the shared *parser.Program", full)
				} else if why, ok := immutReadOnly[full]; ok {
					c.ok(key, in.Pos(), "program-owned reference passed to %s: %s", full, why)
				} else if callee != nil && strings.HasPrefix(callee.String(), modPath) || (callee != nil && callee.Pkg != nil && strings.HasPrefix(callee.Pkg.Pkg.Path(), modPath)) {
					c.ok(key, in.Pos(), "passed to module function %s outside the analysed set (compiler/ast accessor)", full)
				} else {
					c.undecided(key, in.Pos(), "program-owned reference passed to %s, which is not in the read-only table", full)
				}
			}
			if cc.IsInvoke() && s.derived[cc.Value] {
				nSites++
				allIn, n := true, 0
				if node := c.callgraph().Nodes[fn]; node != nil {
					for _, e := range node.Out {
						if e.Site == call {
							n++
							if !s.inScope[e.Callee.Func] {
								allIn = false
							}
						}
					}
				}
				key := fmt.Sprintf("invoke:%s:%s", fnKey(fn), full)
				if allIn && n > 0 {
					c.ok(key, in.Pos(), "interface call on a program-owned value: all %d possible callees are analysed", n)
				} else {
					c.undecided(key, in.Pos(), "interface method call on a program-owned value with callees outside the analysed set")
				}
			}
		})
	}
	c.stat("write-or-escape-sites-examined", nSites)
	c.ok("no-program-writes", token.NoPos, "%d derived values in %d functions; every store/map-update/append/copy/external call examined", len(s.derived), len(s.fns))

	// package-level variables: written only in init
	nGlob := 0
	for _, p := range c.All {
		short := strings.TrimPrefix(strings.TrimPrefix(p.PkgPath, modPath), "/")
		if strings.HasPrefix(short, "scripts") || short == "" {
			continue
		}
		for _, fn := range c.srcFuncs(short) {
			fn := fn
			if fn.Name() == "init" || strings.HasPrefix(fn.Name(), "init#") {
				continue
			}
			allInstrs(fn, func(in ssa.Instruction) {
				switch v := in.(type) {
				case *ssa.Store:
					if g := globalRoot(v.Addr); g != nil && g.Pkg != nil && strings.HasPrefix(g.Pkg.Pkg.Path(), modPath) {
						nGlob++
						c.bad(fmt.Sprintf("global-store:%s:%s", fnKey(fn), g.Name()), v.Pos(), "package-level variable %s is written after initialisation (shared by all interpreters and parsers)", g.Name())
					}
				case *ssa.MapUpdate:
					if g := globalRoot(v.Map); g != nil && g.Pkg != nil && strings.HasPrefix(g.Pkg.Pkg.Path(), modPath) {
						nGlob++
						c.bad(fmt.Sprintf("global-mapupdate:%s:%s", fnKey(fn), g.Name()), v.Pos(), "package-level map %s is updated after initialisation", g.Name())
					}
				case ssa.CallInstruction:
					cc := v.Common()
					if b, ok := cc.Value.(*ssa.Builtin); ok && (b.Name() == "append" || b.Name() == "copy" || b.Name() == "delete") && len(cc.Args) > 0 {
						if g := globalRoot(cc.Args[0]); g != nil && g.Pkg != nil && strings.HasPrefix(g.Pkg.Pkg.Path(), modPath) {
							nGlob++
							c.bad(fmt.Sprintf("global-%s:%s:%s", b.Name(), fnKey(fn), g.Name()), in.Pos(), "%s on package-level variable %s after initialisation", b.Name(), g.Name())
						}
					}
				}
			})
		}
	}
	c.ok("no-global-writes", token.NoPos, "no package-level variable of lexer, parser, internal/*, interp is stored to, map-updated, appended to or copied into outside package init (%d offending sites)", nGlob)
	sharedSliceFields(c)
}

// sharedSliceFields: interpreter fields that hold a slice owned by somebody else - the caller's Config or a
// package-level default shared by all interpreters - are never appended to or written through in place.
// (append(x[a:b], v) writes into x's spare capacity when there is any; only a three-index slice x[a:b:b],
// or appending onto fresh storage with the shared slice as the source, is safe whatever the capacity.)
func sharedSliceFields(c *Ctx) {
	fns := c.srcFuncs("interp")
	shared := map[string]string{} // field -> where its value comes from
	for _, fn := range fns {
		allInstrs(fn, func(in ssa.Instruction) {
			name, val := interpFieldStore(in)
			if name == "" {
				return
			}
			if _, ok := val.Type().Underlying().(*types.Slice); !ok {
				return
			}
			v := val
			for i := 0; i < 4; i++ {
				if ph, ok := v.(*ssa.Phi); ok && len(ph.Edges) > 0 {
					v = ph.Edges[0]
				}
			}
			if u, ok := v.(*ssa.UnOp); ok && u.Op == token.MUL {
				if g, ok := u.X.(*ssa.Global); ok && g.Pkg != nil && strings.HasPrefix(g.Pkg.Pkg.Path(), modPath) {
					shared[name] = "package-level " + g.Name()
				}
				if f, x := fieldOfAddr(u.X); f != nil && isNamed(deref(x.Type()), modPath+"/interp", "Config") {
					shared[name] = "Config." + f.Name()
				}
			}
		})
	}
	n := 0
	for _, fn := range fns {
		fn := fn
		idx := map[string]int{}
		allInstrs(fn, func(in ssa.Instruction) {
			call, ok := in.(*ssa.Call)
			if !ok {
				return
			}
			b, ok := call.Call.Value.(*ssa.Builtin)
			if !ok || (b.Name() != "append" && b.Name() != "copy") || len(call.Call.Args) == 0 {
				return
			}
			// destination: strip two-index slices
			dst := call.Call.Args[0]
			capped := false
			for {
				sl, ok := dst.(*ssa.Slice)
				if !ok {
					break
				}
				if sl.Max != nil {
					capped = true
				}
				dst = sl.X
			}
			f := interpFieldLoad(dst)
			if f == "" || shared[f] == "" {
				return
			}
			n++
			idx[f]++
			key := "shared-slice:" + b.Name() + ":" + fnKey(fn) + ":" + f
			if idx[f] > 1 {
				key += "#" + itoa(int64(idx[f]))
			}
			c.check(capped && b.Name() == "append", key, in.Pos(), "capacity is capped by a three-index slice, so append copies",
				fnKey(fn)+" uses p."+f+" (which holds "+shared[f]+") as the destination of "+b.Name()+": if that slice has spare capacity the write lands in storage owned by the caller or shared by all interpreters - concurrent executions race on it and can observe each other's data")
		})
	}
	var names []string
	for k, v := range shared {
		names = append(names, k+" <- "+v)
	}
	sort.Strings(names)
	if n == 0 {
		c.ok("shared-slice:none", token.NoPos, "no append/copy has a caller-owned or package-level slice as its destination (fields holding such slices: %s)", strings.Join(names, "; "))
	}
	c.atLeast("interpreter fields holding caller-owned or shared slices", len(shared), 1)
}

// globalRoot: the package-level variable whose storage (or whose slice/map value, through loads) v refers to.
func globalRoot(v ssa.Value) *ssa.Global {
	for i := 0; i < 10; i++ {
		switch x := v.(type) {
		case *ssa.Global:
			return x
		case *ssa.FieldAddr:
			v = x.X
		case *ssa.IndexAddr:
			v = x.X
		case *ssa.Slice:
			v = x.X
		case *ssa.UnOp:
			if x.Op != token.MUL {
				return nil
			}
			v = x.X
		case *ssa.ChangeType:
			v = x.X
		default:
			return nil
		}
	}
	return nil
}

func describeAddr(v ssa.Value) string {
	switch x := v.(type) {
	case *ssa.FieldAddr:
		if f, _ := fieldOfAddr(x); f != nil {
			return describeAddr(x.X) + "." + f.Name()
		}
	case *ssa.IndexAddr:
		return describeAddr(x.X) + "[i]"
	case *ssa.UnOp:
		return describeAddr(x.X)
	case *ssa.Parameter:
		return x.Name()
	case *ssa.Slice:
		return describeAddr(x.X) + "[:]"
	}
	return v.Name()
}
