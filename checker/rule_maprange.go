package main

import (
	"fmt"
	"go/ast"
	"go/token"
	"go/types"
	"golang.org/x/tools/go/ssa"
	"strings"

	"golang.org/x/tools/go/packages"
)

// R-MAPRANGE (C19, C16): no map-iteration order may leak into the result of parsing.

var mapRangePkgs = []string{"lexer", "parser", "internal/ast", "internal/resolver", "internal/compiler", "internal/parseutil"}

func init() {
	register("R-MAPRANGE", "every `range` over a map in the parse pipeline (lexer, parser, internal/ast, internal/resolver, internal/compiler, internal/parseutil) and every callback handed to an iterate-over-map API (IterVars/IterFuncs) has an order-insensitive body: keyed writes into maps or index-keyed slice slots (incl. grow-with-zero-then-store), deletes, integer counters, constant returns, nested order-insensitive loops, or collect-into-a-slice that is passed to sort.* before any other use; appends without sort, break, non-constant return, panics and calls with effects are order-sensitive (Go's map order is unspecified, so they make the parse result or the reported error vary from run to run)", ruleMapRange)
}

type mrCtx struct {
	c        *Ctx
	pkg      *packages.Package
	fn       *ast.FuncDecl
	funcParm map[types.Object]bool // func-typed parameters of the enclosing function (callbacks)
	modified map[types.Object]bool // objects assigned/incremented inside the loop body
	collects []types.Object        // slices appended to (need sort afterwards)
}

func (m *mrCtx) pure(e ast.Expr) (bool, string) {
	ok := true
	why := ""
	ast.Inspect(e, func(n ast.Node) bool {
		call, isCall := n.(*ast.CallExpr)
		if !isCall {
			if _, isLit := n.(*ast.FuncLit); isLit {
				return false
			}
			return true
		}
		// conversions and builtins are pure
		if tv, found := m.pkg.TypesInfo.Types[call.Fun]; found && tv.IsType() {
			return true
		}
		if id, isId := call.Fun.(*ast.Ident); isId {
			if _, isB := m.pkg.TypesInfo.Uses[id].(*types.Builtin); isB {
				if id.Name == "panic" || id.Name == "delete" || id.Name == "append" || id.Name == "copy" || id.Name == "print" || id.Name == "println" {
					ok, why = false, "call of "+id.Name+" in an expression"
				}
				return true
			}
		}
		if f := calleeOf(m.pkg.TypesInfo, call); f != nil {
			full := f.FullName()
			if pureFuncs[full] {
				return true
			}
			if effectFree(m.c, f, 0) {
				return true // a function of the module that only writes memory it created itself
			}
			ok, why = false, "call of "+full+" (not known to be effect-free)"
			return true
		}
		ok, why = false, "dynamic call "+types.ExprString(call.Fun)
		return true
	})
	return ok, why
}

// effectFree: the function (of this module) writes only memory it created itself - its own variables, slices
// and maps it made - and calls only functions of the same kind (or sort.* on a slice it made).
func effectFree(c *Ctx, f *types.Func, depth int) bool {
	if depth > 3 || f.Pkg() == nil || !strings.HasPrefix(f.Pkg().Path(), modPath) {
		return false
	}
	key := "effectfree:" + f.FullName()
	if v, ok := c.memo[key].(bool); ok {
		return v
	}
	c.memo[key] = false // recursion: assume not
	fn := c.Prog.FuncValue(f)
	if fn == nil || len(fn.Blocks) == 0 {
		return false
	}
	inProgress := map[ssa.Value]bool{}
	var local func(v ssa.Value, d int) bool
	local = func(v ssa.Value, d int) bool {
		if d > 12 {
			return false
		}
		if inProgress[v] {
			return true // a loop-carried value: decided by its other operands
		}
		inProgress[v] = true
		defer delete(inProgress, v)
		switch x := v.(type) {
		case *ssa.Alloc, *ssa.MakeSlice, *ssa.MakeMap:
			return true
		case *ssa.IndexAddr:
			return local(x.X, d+1)
		case *ssa.FieldAddr:
			return local(x.X, d+1)
		case *ssa.Slice:
			return local(x.X, d+1)
		case *ssa.Phi:
			for _, e := range x.Edges {
				if k, isK := e.(*ssa.Const); isK && k.Value == nil {
					continue
				}
				if !local(e, d+1) {
					return false
				}
			}
			return true
		case *ssa.Call:
			if b, ok := x.Call.Value.(*ssa.Builtin); ok && b.Name() == "append" {
				return local(x.Call.Args[0], d+1) || isNilConst(x.Call.Args[0])
			}
		case *ssa.UnOp:
			if x.Op == token.MUL {
				return local(x.X, d+1) // a load from a local cell holding a local slice
			}
		}
		return false
	}
	good := true
	allInstrs(fn, func(in ssa.Instruction) {
		switch x := in.(type) {
		case *ssa.Store:
			if !local(x.Addr, 0) {
				good = false
			}
		case *ssa.MapUpdate:
			if !local(x.Map, 0) {
				good = false
			}
		case *ssa.Send, *ssa.Go, *ssa.Defer, *ssa.Panic:
			good = false
		case *ssa.Call:
			if _, isB := x.Call.Value.(*ssa.Builtin); isB {
				if b := x.Call.Value.(*ssa.Builtin); b.Name() == "delete" || b.Name() == "copy" {
					if !local(x.Call.Args[0], 0) {
						good = false
					}
				}
				return
			}
			fo := calleeObj(x)
			if fo == nil {
				good = false
				return
			}
			switch fo.FullName() {
			case "sort.Strings", "sort.Ints", "sort.Float64s", "slices.Sort":
				if !local(x.Call.Args[0], 0) {
					good = false
				}
				return
			}
			if pureFuncs[fo.FullName()] {
				return
			}
			if !effectFree(c, fo, depth+1) {
				good = false
			}
		}
	})
	c.memo[key] = good
	return good
}

// effect-free functions that map-range bodies of the parse pipeline may call
var pureFuncs = map[string]bool{
	"strings.HasPrefix": true, "strings.ToLower": true, "strings.ToUpper": true, "len": true,
	"strconv.Itoa": true, "fmt.Sprintf": true, "strings.Join": true, "strings.Contains": true,
}

func calleeOf(info *types.Info, call *ast.CallExpr) *types.Func {
	var id *ast.Ident
	switch f := call.Fun.(type) {
	case *ast.Ident:
		id = f
	case *ast.SelectorExpr:
		id = f.Sel
	case *ast.ParenExpr:
		return nil
	}
	if id == nil {
		return nil
	}
	f, _ := info.Uses[id].(*types.Func)
	return f
}

func (m *mrCtx) objOf(e ast.Expr) types.Object {
	if id, ok := e.(*ast.Ident); ok {
		if o := m.pkg.TypesInfo.Uses[id]; o != nil {
			return o
		}
		return m.pkg.TypesInfo.Defs[id]
	}
	return nil
}

func isZeroConst(info *types.Info, e ast.Expr) bool {
	tv, ok := info.Types[e]
	if !ok {
		return false
	}
	if tv.Value != nil {
		s := tv.Value.ExactString()
		return s == `""` || s == "0" || s == "false"
	}
	if id, ok := e.(*ast.Ident); ok && id.Name == "nil" {
		return true
	}
	return false
}

// collectModified records every object assigned or inc/dec'ed in the body.
func (m *mrCtx) collectModified(body *ast.BlockStmt) {
	ast.Inspect(body, func(n ast.Node) bool {
		switch s := n.(type) {
		case *ast.AssignStmt:
			for _, l := range s.Lhs {
				if o := m.objOf(l); o != nil {
					m.modified[o] = true
				}
			}
		case *ast.IncDecStmt:
			if o := m.objOf(s.X); o != nil {
				m.modified[o] = true
			}
		}
		return true
	})
}

// stmt decides one statement; returns "" if order-insensitive, else the reason.
func (m *mrCtx) stmt(s ast.Stmt, declared map[types.Object]bool) string {
	info := m.pkg.TypesInfo
	switch s := s.(type) {
	case nil, *ast.EmptyStmt:
		return ""
	case *ast.DeclStmt:
		if gd, ok := s.Decl.(*ast.GenDecl); ok {
			for _, sp := range gd.Specs {
				if vs, ok := sp.(*ast.ValueSpec); ok {
					for _, nm := range vs.Names {
						declared[info.Defs[nm]] = true
					}
					for _, v := range vs.Values {
						if ok, why := m.pure(v); !ok {
							return why
						}
					}
				}
			}
		}
		return ""
	case *ast.BlockStmt:
		for _, x := range s.List {
			if r := m.stmt(x, declared); r != "" {
				return r
			}
		}
		return ""
	case *ast.IncDecStmt:
		if ok, why := m.pure(s.X); !ok {
			return why
		}
		return "" // counter: commutative
	case *ast.BranchStmt:
		if s.Tok == token.CONTINUE {
			return ""
		}
		return s.Tok.String() + " makes the result depend on which key comes first"
	case *ast.ReturnStmt:
		for _, r := range s.Results {
			tv := info.Types[r]
			if tv.Value == nil && !(isIdent(r, "nil") || isIdent(r, "true") || isIdent(r, "false")) {
				return "return of a non-constant value inside a map range (first-wins)"
			}
		}
		return ""
	case *ast.IfStmt:
		if s.Init != nil {
			if r := m.stmt(s.Init, declared); r != "" {
				return r
			}
		}
		if ok, why := m.pure(s.Cond); !ok {
			return why
		}
		if m.minMaxReduction(s) {
			return ""
		}
		if r := m.stmt(s.Body, declared); r != "" {
			return r
		}
		if s.Else != nil {
			return m.stmt(s.Else, declared)
		}
		return ""
	case *ast.SwitchStmt:
		// a switch is an if chain: pure tag and labels, every clause body order-insensitive
		if s.Init != nil {
			if r := m.stmt(s.Init, declared); r != "" {
				return r
			}
		}
		if s.Tag != nil {
			if ok, why := m.pure(s.Tag); !ok {
				return why
			}
		}
		for _, cs := range s.Body.List {
			cc := cs.(*ast.CaseClause)
			for _, e := range cc.List {
				if ok, why := m.pure(e); !ok {
					return why
				}
			}
			for _, b := range cc.Body {
				if r := m.stmt(b, declared); r != "" {
					return r
				}
			}
		}
		return ""
	case *ast.ForStmt:
		// grow idiom: for len(X) <= idx { X = append(X, zero) }
		if s.Init == nil && s.Post == nil && s.Cond != nil && len(s.Body.List) == 1 {
			if as, ok := s.Body.List[0].(*ast.AssignStmt); ok && len(as.Lhs) == 1 && len(as.Rhs) == 1 {
				if call, ok := as.Rhs[0].(*ast.CallExpr); ok && isIdent(call.Fun, "append") && len(call.Args) == 2 &&
					types.ExprString(call.Args[0]) == types.ExprString(as.Lhs[0]) && isZeroConst(info, call.Args[1]) {
					if be, ok := s.Cond.(*ast.BinaryExpr); ok && strings.Contains(types.ExprString(be.X), "len("+types.ExprString(as.Lhs[0])+")") {
						return ""
					}
				}
			}
		}
		return "loop inside a map range that is not the grow-with-zero idiom"
	case *ast.RangeStmt:
		if ok, why := m.pure(s.X); !ok {
			return why
		}
		return m.stmt(s.Body, declared)
	case *ast.ExprStmt:
		call, ok := s.X.(*ast.CallExpr)
		if !ok {
			return "expression statement"
		}
		if isIdent(call.Fun, "delete") {
			return ""
		}
		if isIdent(call.Fun, "panic") {
			return "panic inside a map range: which of several failing keys is reported depends on iteration order"
		}
		// callback parameter of the enclosing iterate API: the callbacks are checked at the API's call sites
		if o := m.objOf(call.Fun); o != nil && m.funcParm[o] {
			for _, a := range call.Args {
				if ok, why := m.pure(a); !ok {
					return why
				}
			}
			return ""
		}
		// sort.X(v, ...) on a variable declared inside the body: local to one iteration
		if f := calleeOf(info, call); f != nil && f.Pkg() != nil && (f.Pkg().Path() == "sort" || f.Pkg().Path() == "slices") && len(call.Args) > 0 {
			if o := m.objOf(call.Args[0]); o != nil && declared[o] {
				return ""
			}
		}
		if ok, why := m.pure(call); !ok {
			return why + ": may have order-dependent effects"
		}
		return ""
	case *ast.AssignStmt:
		for _, r := range s.Rhs {
			// append handled below
			if call, ok := r.(*ast.CallExpr); ok && isIdent(call.Fun, "append") {
				continue
			}
			if ok, why := m.pure(r); !ok {
				return why
			}
		}
		for i, l := range s.Lhs {
			if isIdent(l, "_") {
				continue
			}
			switch lx := l.(type) {
			case *ast.IndexExpr:
				// keyed write; for slices the index must not be a loop-modified variable
				bad := ""
				ast.Inspect(lx.Index, func(n ast.Node) bool {
					if id, ok := n.(*ast.Ident); ok {
						if o := info.Uses[id]; o != nil && m.modified[o] && !declared[o] {
							bad = "slice/map slot indexed by " + id.Name + ", which the loop itself modifies (position depends on iteration order)"
						}
					}
					return true
				})
				if bad != "" {
					return bad
				}
				if ok, why := m.pure(lx.X); !ok {
					return why
				}
			case *ast.Ident:
				o := m.objOf(lx)
				if s.Tok == token.DEFINE || (o != nil && declared[o]) {
					if o != nil {
						declared[o] = true
					}
					continue
				}
				// x = append(x, v): collect (must be sorted afterwards)
				if i < len(s.Rhs) {
					if call, ok := s.Rhs[i].(*ast.CallExpr); ok && isIdent(call.Fun, "append") && len(call.Args) >= 1 && types.ExprString(call.Args[0]) == lx.Name {
						m.collects = append(m.collects, o)
						continue
					}
				}
				if s.Tok == token.ADD_ASSIGN || s.Tok == token.SUB_ASSIGN || s.Tok == token.OR_ASSIGN || s.Tok == token.AND_ASSIGN {
					if b, ok := info.TypeOf(lx).Underlying().(*types.Basic); ok && b.Info()&types.IsInteger != 0 {
						continue // integer accumulation is commutative
					}
				}
				return "assignment to outer variable " + lx.Name + " inside a map range (last-wins)"
			case *ast.SelectorExpr:
				if i < len(s.Rhs) {
					if call, ok := s.Rhs[i].(*ast.CallExpr); ok && isIdent(call.Fun, "append") {
						return "append to " + types.ExprString(lx) + " inside a map range: element order follows iteration order"
					}
				}
				return "assignment to " + types.ExprString(lx) + " inside a map range (last-wins)"
			default:
				return "assignment to " + types.ExprString(l)
			}
		}
		return ""
	}
	return fmt.Sprintf("statement %T not known to be order-insensitive", s)
}

// minMaxReduction: `if <ordering comparison of v and X> { X = v }` with no else: the result is the
// extreme element whatever the iteration order.
func (m *mrCtx) minMaxReduction(s *ast.IfStmt) bool {
	if s.Else != nil || s.Init != nil || len(s.Body.List) != 1 {
		return false
	}
	as, ok := s.Body.List[0].(*ast.AssignStmt)
	if !ok || as.Tok != token.ASSIGN || len(as.Lhs) != 1 || len(as.Rhs) != 1 {
		return false
	}
	x, v := m.objOf(as.Lhs[0]), m.objOf(as.Rhs[0])
	if x == nil || v == nil {
		return false
	}
	// the condition must be a lexicographic strict order:  a1<b1 || a1==b1 && a2<b2 || ...
	// (an arbitrary mix of comparisons is not transitive, and then the result depends on iteration order)
	var ors []ast.Expr
	var flatOr func(e ast.Expr)
	flatOr = func(e ast.Expr) {
		e = stripParens(e)
		if be, ok := e.(*ast.BinaryExpr); ok && be.Op == token.LOR {
			flatOr(be.X)
			flatOr(be.Y)
			return
		}
		ors = append(ors, e)
	}
	flatOr(s.Cond)
	var flatAnd func(e ast.Expr, out *[]ast.Expr)
	flatAnd = func(e ast.Expr, out *[]ast.Expr) {
		e = stripParens(e)
		if be, ok := e.(*ast.BinaryExpr); ok && be.Op == token.LAND {
			flatAnd(be.X, out)
			flatAnd(be.Y, out)
			return
		}
		*out = append(*out, e)
	}
	mentions := func(e ast.Expr, o types.Object) bool {
		found := false
		ast.Inspect(e, func(n ast.Node) bool {
			if id, ok := n.(*ast.Ident); ok && m.pkg.TypesInfo.Uses[id] == o {
				found = true
			}
			return true
		})
		return found
	}
	var keysL, keysR []string // earlier strict comparisons' operands
	var dir token.Token
	for k, term := range ors {
		var ands []ast.Expr
		flatAnd(term, &ands)
		if len(ands) != k+1 {
			return false
		}
		for i, a := range ands {
			be, ok := a.(*ast.BinaryExpr)
			if !ok {
				return false
			}
			l, r := types.ExprString(be.X), types.ExprString(be.Y)
			if i < k {
				if be.Op != token.EQL || l != keysL[i] || r != keysR[i] {
					return false
				}
				continue
			}
			if be.Op != token.LSS && be.Op != token.GTR {
				return false
			}
			if k == 0 {
				dir = be.Op
			} else if be.Op != dir {
				return false
			}
			// one side is about the loop value, the other about the accumulator
			if !(mentions(be.X, v) && mentions(be.Y, x) || mentions(be.X, x) && mentions(be.Y, v)) {
				return false
			}
			if k > 0 && (mentions(be.X, v) != mentions(stripParens(ors[0]).(*ast.BinaryExpr).X, v)) && len(ands) == 1 {
				return false
			}
			keysL, keysR = append(keysL, l), append(keysR, r)
		}
	}
	return len(ors) > 0
}

func isIdent(e ast.Expr, name string) bool {
	id, ok := e.(*ast.Ident)
	return ok && id.Name == name
}

// sortedBeforeUse: after stmt `after` in its enclosing block, the first statement mentioning obj is sort.X(obj,...).
func sortedBeforeUse(info *types.Info, fnBody *ast.BlockStmt, after ast.Stmt, obj types.Object) bool {
	var list []ast.Stmt
	ast.Inspect(fnBody, func(n ast.Node) bool {
		var l []ast.Stmt
		switch b := n.(type) {
		case *ast.BlockStmt:
			l = b.List
		case *ast.CaseClause:
			l = b.Body
		}
		for i, s := range l {
			if s == after {
				list = l[i+1:]
			}
		}
		return list == nil
	})
	for _, s := range list {
		mentions := false
		ast.Inspect(s, func(n ast.Node) bool {
			if id, ok := n.(*ast.Ident); ok && info.Uses[id] == obj {
				mentions = true
			}
			return true
		})
		if !mentions {
			continue
		}
		es, ok := s.(*ast.ExprStmt)
		if !ok {
			return false
		}
		call, ok := es.X.(*ast.CallExpr)
		if !ok {
			return false
		}
		f := calleeOf(info, call)
		if f == nil || f.Pkg() == nil || (f.Pkg().Path() != "sort" && f.Pkg().Path() != "slices") {
			return false
		}
		if len(call.Args) == 0 {
			return false
		}
		id, ok := call.Args[0].(*ast.Ident)
		if !ok || info.Uses[id] != obj {
			return false
		}
		// the order must be total on the collected elements: the elements are distinct map keys, so sorting
		// them by their own value is; sorting by a derived key (a line number, a length) leaves elements
		// with equal keys in map-iteration order
		switch f.Name() {
		case "Strings", "Ints", "Float64s", "Sort", "Stable":
			return f.Name() != "Sort" && f.Name() != "Stable" || len(call.Args) == 1
		case "Slice", "SliceStable", "SortFunc", "SortStableFunc":
			if len(call.Args) != 2 {
				return false
			}
			fl, ok := call.Args[1].(*ast.FuncLit)
			if !ok || len(fl.Body.List) != 1 {
				return false
			}
			ret, ok := fl.Body.List[0].(*ast.ReturnStmt)
			if !ok || len(ret.Results) != 1 {
				return false
			}
			b, ok := ret.Results[0].(*ast.BinaryExpr)
			if !ok || (b.Op != token.LSS && b.Op != token.GTR) {
				return false
			}
			// x[i] < x[j] on the collected slice itself
			isElem := func(e ast.Expr) bool {
				ix, ok := e.(*ast.IndexExpr)
				if !ok {
					return false
				}
				bid, ok := ix.X.(*ast.Ident)
				return ok && info.Uses[bid] == obj
			}
			return isElem(b.X) && isElem(b.Y)
		}
		return false
	}
	return false
}

func ruleMapRange(c *Ctx) {
	mapRangeFirstError(c)
	nRanges, nCallbacks := 0, 0
	for _, short := range mapRangePkgs {
		p := c.pkg(short)
		if p == nil {
			c.undecided("anchor:pkg:"+short, token.NoPos, "package %s not loaded", short)
			continue
		}
		for _, fd := range c.allFuncDecls(short) {
			if fd.Body == nil {
				continue
			}
			fd := fd
			idx := 0
			ast.Inspect(fd.Body, func(n ast.Node) bool {
				rs, ok := n.(*ast.RangeStmt)
				if !ok {
					return true
				}
				if _, isMap := p.TypesInfo.TypeOf(rs.X).Underlying().(*types.Map); !isMap {
					return true
				}
				nRanges++
				idx++
				key := fmt.Sprintf("range:%s.%s:%s#%d", short, declName(fd), types.ExprString(rs.X), idx)
				m := &mrCtx{c: c, pkg: p, fn: fd, funcParm: map[types.Object]bool{}, modified: map[types.Object]bool{}}
				if fd.Type.Params != nil {
					for _, f := range fd.Type.Params.List {
						if _, isFn := p.TypesInfo.TypeOf(f.Type).Underlying().(*types.Signature); isFn {
							for _, nm := range f.Names {
								m.funcParm[p.TypesInfo.Defs[nm]] = true
							}
						}
					}
				}
				m.collectModified(rs.Body)
				declared := map[types.Object]bool{}
				for _, kv := range []ast.Expr{rs.Key, rs.Value} {
					if id, ok := kv.(*ast.Ident); ok {
						if o := p.TypesInfo.Defs[id]; o != nil {
							declared[o] = true
						} else if o := p.TypesInfo.Uses[id]; o != nil && rs.Tok == token.ASSIGN {
							// `for n = range m` assigns an outer variable: value after the loop depends on order
							c.bad(key, rs.Pos(), "range assigns the outer variable %s: its value after the loop depends on map order", id.Name)
							return true
						}
					}
				}
				if r := m.stmt(rs.Body, declared); r != "" {
					c.bad(key, rs.Pos(), "order-sensitive body in range over map %s: %s", types.ExprString(rs.X), r)
					return true
				}
				for _, o := range m.collects {
					if o == nil || !sortedBeforeUse(p.TypesInfo, fd.Body, rs, o) {
						name := "?"
						if o != nil {
							name = o.Name()
						}
						c.bad(key, rs.Pos(), "keys of map %s are collected into %s, which is not passed to sort.* before its next use: element order follows map order", types.ExprString(rs.X), name)
						return true
					}
				}
				how := "keyed writes / counters only"
				if len(m.collects) > 0 {
					how = "collect-then-sort"
				}
				c.ok(key, rs.Pos(), "order-insensitive (%s)", how)
				return true
			})
		}
	}
	// callbacks handed to IterVars / IterFuncs anywhere in the module
	for _, p := range c.All {
		for _, f := range p.Syntax {
			var cur *ast.FuncDecl
			ast.Inspect(f, func(n ast.Node) bool {
				if fd, ok := n.(*ast.FuncDecl); ok {
					cur = fd
				}
				call, ok := n.(*ast.CallExpr)
				if !ok {
					return true
				}
				fo := calleeOf(p.TypesInfo, call)
				if fo == nil || (fo.Name() != "IterVars" && fo.Name() != "IterFuncs") || fo.Pkg() == nil || !strings.HasPrefix(fo.Pkg().Path(), modPath) {
					return true
				}
				for _, a := range call.Args {
					lit, ok := a.(*ast.FuncLit)
					if !ok {
						if _, isFn := p.TypesInfo.TypeOf(a).Underlying().(*types.Signature); isFn {
							// forwarding a callback parameter (e.g. parser.Program.IterVars): checked at the outer call sites
							if o := p.TypesInfo.Uses[identOf(a)]; o != nil {
								c.trivial(fmt.Sprintf("callback-forward:%s:%s", strings.TrimPrefix(p.PkgPath, modPath+"/"), declName(cur)), call.Pos(), "forwards its own callback parameter")
								continue
							}
							c.undecided(fmt.Sprintf("callback:%s:%s", p.PkgPath, declName(cur)), call.Pos(), "callback to %s is not a function literal", fo.Name())
						}
						continue
					}
					nCallbacks++
					key := fmt.Sprintf("callback:%s.%s:%s", strings.TrimPrefix(p.PkgPath, modPath+"/"), declName(cur), fo.Name())
					m := &mrCtx{c: c, pkg: p, fn: cur, funcParm: map[types.Object]bool{}, modified: map[types.Object]bool{}}
					m.collectModified(lit.Body)
					declared := map[types.Object]bool{}
					for _, fl := range lit.Type.Params.List {
						for _, nm := range fl.Names {
							declared[p.TypesInfo.Defs[nm]] = true
						}
					}
					if r := m.stmt(lit.Body, declared); r != "" {
						c.bad(key, lit.Pos(), "callback invoked in map order has an order-sensitive body: %s", r)
					} else if len(m.collects) > 0 {
						// collect-then-sort: the statement holding the call is followed by sort.X(slice) before any other use
						var holder ast.Stmt
						if cur != nil && cur.Body != nil {
							ast.Inspect(cur.Body, func(x ast.Node) bool {
								if es, ok := x.(*ast.ExprStmt); ok && es.X == ast.Expr(call) {
									holder = es
								}
								return true
							})
						}
						sorted := holder != nil
						for _, o := range m.collects {
							if o == nil || holder == nil || !sortedBeforeUse(p.TypesInfo, cur.Body, holder, o) {
								sorted = false
							}
						}
						if sorted {
							c.ok(key, lit.Pos(), "callback collects into a slice that is sorted before any other use")
						} else {
							c.bad(key, lit.Pos(), "callback invoked in map order appends to a slice that is not sorted before use: element order follows map order")
						}
					} else {
						c.ok(key, lit.Pos(), "callback body is order-insensitive (keyed writes only)")
					}
				}
				return true
			})
		}
	}
	c.atLeast("map ranges in the parse pipeline", nRanges, 8)
	c.atLeast("iteration callbacks", nCallbacks, 3)
}

func identOf(e ast.Expr) *ast.Ident {
	id, _ := e.(*ast.Ident)
	return id
}

// mapRangeFirstError (part of R-MAPRANGE, C19): which error an execution reports must not depend on the iteration
// order of a Go map. In the set-up code of package interp (everything outside the instruction loop, where `for (k in
// a)` deliberately has no order), a loop over a map does not return the first error it meets: with two offending
// entries the error differs from one execution of the same Program to the next.
func mapRangeFirstError(c *Ctx) {
	n := 0
	for _, fn := range c.srcFuncs("interp") {
		fn := fn
		if fn.Name() == "execute" || fn.Name() == "callBuiltin" {
			continue
		}
		allInstrs(fn, func(in ssa.Instruction) {
			rg, ok := in.(*ssa.Range)
			if !ok {
				return
			}
			if _, isMap := rg.X.Type().Underlying().(*types.Map); !isMap {
				return
			}
			n++
			// the loop: blocks that can reach the block of the Next instruction again
			var head *ssa.BasicBlock
			if refs := rg.Referrers(); refs != nil {
				for _, r := range *refs {
					if nx, ok := r.(*ssa.Next); ok {
						head = nx.Block()
					}
				}
			}
			if head == nil {
				return
			}
			bad := token.NoPos
			for b := range reachableFromStrict(head) {
				if !reachableFromStrict(b)[head] && b != head {
					// outside the loop - unless it is an exit block reached only from inside
					inLoopPred := false
					for _, p := range b.Preds {
						if p != head && reachableFromStrict(p)[head] && reachableFromStrict(head)[p] {
							inLoopPred = true
						}
					}
					if !inLoopPred {
						continue
					}
				}
				if len(b.Instrs) == 0 {
					continue
				}
				ret, ok := b.Instrs[len(b.Instrs)-1].(*ssa.Return)
				if !ok {
					continue
				}
				for _, rv := range ret.Results {
					if types.TypeString(rv.Type(), nil) != "error" {
						continue
					}
					if k, isK := rv.(*ssa.Const); isK && k.Value == nil {
						continue
					}
					bad = posOr(ret.Pos(), rg.Pos())
				}
			}
			key := "range-first-error:" + fnKey(fn)
			c.check(bad == token.NoPos, key, posOr(bad, fn.Pos()), "no loop over a map returns the first error it meets",
				fnKey(fn)+" returns an error from inside a loop over a map: with two offending entries the one reported depends on the map's iteration order, so repeated executions of one Program (with the same configuration) end with different error messages - iterate over the sorted keys instead")
		})
	}
	c.atLeast("loops over maps in the set-up code of the interpreter", n, 2)
}
