package main

import (
	"strings"
	"fmt"
	"go/token"
	"go/types"

	"golang.org/x/tools/go/ssa"
)

// R-LEXPOS (C03): the lexer's position state has one owner.

func init() {
	register("R-LEXPOS", "the lexer's scanning state {offset, ch, pos, nextPos} (invariant: nextPos is the line/column of src[offset], pos that of ch) is written only by next(), whose update is the definitional one, by NewLexer on a fresh Lexer, or by restoring a whole-struct snapshot taken from the same Lexer in the same function; any other store, in particular arithmetic on pos/nextPos, can put the reported positions out of step with the bytes (off by a line after a look-ahead that crossed a newline); every position a scan function returns is either the saved start position or the current l.pos", ruleLexPos)
}

func ruleLexPos(c *Ctx) {
	lexSourceAsGiven(c)
	named, st := c.structType("lexer", "Lexer")
	if st == nil {
		c.undecided("anchor:Lexer", token.NoPos, "type lexer.Lexer not found")
		return
	}
	guardedFields := map[string]bool{}
	for i := 0; i < st.NumFields(); i++ {
		f := st.Field(i)
		switch ft := f.Type().(type) {
		case *types.Named:
			if ft.Obj().Name() == "Position" {
				guardedFields[f.Name()] = true
			}
		case *types.Basic:
			// offset (int) and ch (byte): the cursor
			if ft.Kind() == types.Int || ft.Kind() == types.Uint8 {
				guardedFields[f.Name()] = true
			}
		}
	}
	c.atLeast("cursor/position fields of Lexer", len(guardedFields), 4)
	isLexer := func(t types.Type) bool {
		n, ok := deref(t).(*types.Named)
		return ok && n == named
	}
	// root field of an address chain into a Lexer
	var rootField func(v ssa.Value, depth int) (string, ssa.Value)
	rootField = func(v ssa.Value, depth int) (string, ssa.Value) {
		if depth > 4 {
			return "", nil
		}
		if fa, ok := v.(*ssa.FieldAddr); ok {
			if f, x := fieldOfAddr(fa); f != nil {
				if isLexer(x.Type()) {
					return f.Name(), x
				}
				return rootField(fa.X, depth+1)
			}
		}
		return "", nil
	}
	nStores, nOwners := 0, 0
	for _, fn := range c.srcFuncs("lexer") {
		fn := fn
		allInstrs(fn, func(in ssa.Instruction) {
			st, ok := in.(*ssa.Store)
			if !ok {
				return
			}
			// whole-struct store through a *Lexer
			if isLexer(st.Addr.Type()) && !isFieldAddr(st.Addr) {
				if _, isAlloc := st.Addr.(*ssa.Alloc); isAlloc {
					return // initialising a local copy / fresh value
				}
				nStores++
				key := "restore:" + fnKey(fn)
				// value must be a load of the same pointer (snapshot) possibly via a local alloc
				if snapshotOf(st.Val, st.Addr) {
					c.ok(key, st.Pos(), "whole-state restore from a snapshot of the same Lexer taken in this function")
				} else {
					c.bad(key, st.Pos(), "the Lexer's state is overwritten with a value that is not a snapshot of the same Lexer")
				}
				return
			}
			f, x := rootField(st.Addr, 0)
			if f == "" || !guardedFields[f] {
				return
			}
			nStores++
			key := fmt.Sprintf("store:%s:%s", fnKey(fn), f)
			_, fresh := x.(*ssa.Alloc)
			switch {
			case fn.Name() == "next" && fn.Signature.Recv() != nil:
				nOwners++
				c.ok(key, st.Pos(), "next() is the owner of the cursor and position fields")
			case fresh:
				// a fresh Lexer starts at offset 0, line 1, column 1: the initial values must be those constants, so
				// that "nextPos is the position of src[offset]" holds before the first next()
				initOK := true
				if k, isK := st.Val.(*ssa.Const); isK && k.Value != nil {
					v := k.Value.ExactString()
					switch f {
					case "offset":
						initOK = v == "0"
					case "nextPos", "pos":
						initOK = v == "1" || v == "0"
					}
				} else if f == "offset" || f == "nextPos" {
					initOK = false
				}
				c.check(initOK, key, st.Pos(), "initialisation of a fresh Lexer (offset 0 at line 1, column 1)", fnKey(fn)+" initialises Lexer."+f+" of a fresh Lexer to something other than the start of the source: offset and line/column are out of step from the first token on, so every position on the first line is wrong")
			default:
				c.bad(key, st.Pos(), "%s writes Lexer.%s outside next(): the position bookkeeping (nextPos = line/column of src[offset]) is only maintained by next(); adjusting it by hand is wrong whenever the adjusted character is a newline or carriage return", fnKey(fn), f)
			}
		})
	}
	// (a lexer that never un-reads by restoring a snapshot has nothing to get wrong here)
	{
		nRestore := 0
		for _, o := range c.obs {
			if strings.HasPrefix(o.Key, "restore:") {
				nRestore++
			}
		}
		if nRestore == 0 {
			c.ok("restore:none", token.NoPos, "no function of the lexer overwrites the Lexer's whole state (no snapshot/restore un-read)")
		}
	}
	c.atLeast("stores to cursor/position fields", nStores, 6)
	c.atLeast("stores inside next()", nOwners, 5)
	// end of input is a fixed point of next(): some callers (an escape or a line continuation at the very end
	// of the source) call it again when the input is exhausted. The first call at the end still moves nextPos
	// one column on, so a second call must not copy nextPos into pos again: the store to pos is reached only
	// while offset <= len(src).
	if nx := c.ssaFunc("lexer", "Lexer.next"); nx != nil {
		guarded := false
		var posStore *ssa.Store
		for _, b := range nx.Blocks {
			for _, in := range b.Instrs {
				st, ok := in.(*ssa.Store)
				if !ok {
					continue
				}
				if f, _ := fieldOfAddr(st.Addr); f == nil || f.Name() != "pos" {
					continue
				}
				posStore = st
				for _, d := range nx.Blocks {
					if len(d.Instrs) == 0 {
						continue
					}
					iff, ok := d.Instrs[len(d.Instrs)-1].(*ssa.If)
					if !ok {
						continue
					}
					cmp, ok := iff.Cond.(*ssa.BinOp)
					if !ok {
						continue
					}
					// offset > len(src): pos may be stored only on the false edge; offset <= len(src): true edge
					isOff := func(v ssa.Value) bool {
						u, ok := v.(*ssa.UnOp)
						if !ok {
							return false
						}
						f, _ := fieldOfAddr(u.X)
						return f != nil && f.Name() == "offset"
					}
					isLen := func(v ssa.Value) bool {
						call, ok := v.(*ssa.Call)
						if !ok {
							return false
						}
						bi, ok := call.Call.Value.(*ssa.Builtin)
						return ok && bi.Name() == "len"
					}
					edge := -1
					switch {
					case cmp.Op == token.GTR && isOff(cmp.X) && isLen(cmp.Y), cmp.Op == token.LSS && isLen(cmp.X) && isOff(cmp.Y):
						edge = 1
					case cmp.Op == token.LEQ && isOff(cmp.X) && isLen(cmp.Y), cmp.Op == token.GEQ && isLen(cmp.X) && isOff(cmp.Y):
						edge = 0
					}
					if edge >= 0 && (edgeDominates(d, edge, b) || d.Succs[edge] == b) {
						guarded = true
					}
				}
			}
		}
		if posStore == nil {
			c.undecided("eof-stable", nx.Pos(), "next() does not store Lexer.pos")
		} else {
			c.check(guarded, "eof-stable", posStore.Pos(), "pos is advanced only while offset <= len(src): calling next() again at the end of input leaves the end position where it is",
				"next() copies nextPos into pos even when the input is already exhausted: the first call at the end moves nextPos one column on, so a second call (an escape or a line continuation as the very last byte of the source) reports the end of input two columns past the last byte - a position that does not exist in the source")
		}
	}
}

func isFieldAddr(v ssa.Value) bool {
	_, ok := v.(*ssa.FieldAddr)
	return ok
}

// snapshotOf: val is `*ptr` loaded earlier (possibly spilled to a local alloc and reloaded).
func snapshotOf(val, ptr ssa.Value) bool {
	u, ok := val.(*ssa.UnOp)
	if !ok || u.Op != token.MUL {
		return false
	}
	if samePtr(u.X, ptr) {
		return true
	}
	if a, ok := u.X.(*ssa.Alloc); ok {
		// every store into the local must itself be a load of ptr
		okAll, n := true, 0
		for _, r := range *a.Referrers() {
			if s, ok := r.(*ssa.Store); ok && s.Addr == a {
				n++
				l, ok := s.Val.(*ssa.UnOp)
				if !ok || l.Op != token.MUL || !samePtr(l.X, ptr) {
					okAll = false
				}
			}
		}
		return okAll && n > 0
	}
	return false
}

// samePtr: identical SSA values, or two loads of one spilled parameter cell (a cell stored exactly once).
func samePtr(a, b ssa.Value) bool {
	if a == b {
		return true
	}
	la, ok1 := a.(*ssa.UnOp)
	lb, ok2 := b.(*ssa.UnOp)
	if !ok1 || !ok2 || la.Op != token.MUL || lb.Op != token.MUL || la.X != lb.X {
		return false
	}
	cell, ok := la.X.(*ssa.Alloc)
	if !ok {
		return false
	}
	n := 0
	for _, r := range *cell.Referrers() {
		if s, ok := r.(*ssa.Store); ok && s.Addr == cell {
			n++
		}
	}
	return n == 1
}

// lexSourceAsGiven (part of R-LEXPOS, C03): a reported position is the line and column of a byte of the source the
// caller passed in, and the CLI indexes that same source by it. The lexer's byte-slice field is therefore only ever
// assigned the constructor's parameter itself: a re-slice or a copy with something removed (a byte-order mark, a
// trailing newline) shifts every later position against the caller's text.
func lexSourceAsGiven(c *Ctx) {
	n := 0
	for _, fn := range c.srcFuncs("lexer") {
		fn := fn
		allInstrs(fn, func(in ssa.Instruction) {
			st, ok := in.(*ssa.Store)
			if !ok {
				return
			}
			f, base := fieldOfAddr(st.Addr)
			if f == nil || !isNamed(deref(base.Type()), modPath+"/lexer", "Lexer") || !isByteSlice(f.Type()) {
				return
			}
			n++
			_, isParam := st.Val.(*ssa.Parameter)
			c.check(isParam, "src:as-given:"+fnKey(fn), in.Pos(), "the lexer scans the caller's source as given",
				fnKey(fn)+" stores into the lexer's source field something other than the parameter it was given (a re-slice or an edited copy): every position reported afterwards is the line/column in that derived text, not in the source the caller holds - the CLI's caret and any tool that indexes the source by the position point at the wrong byte")
		})
	}
	c.atLeast("assignments of the lexer's source", n, 1)
}
