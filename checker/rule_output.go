package main

import (
	"fmt"
	_ "go/ast"
	"go/constant"
	"go/token"
	"go/types"
	"strings"

	"golang.org/x/tools/go/ssa"
)

// R-OUTPUT (C13): delivery of output and error discipline of the I/O layer.

func init() {
	register("R-OUTPUT", "output delivery: (ERRDROP) every call in package interp whose error result is discarded is in the accepted table with its reason (closing a read-only input, best-effort flush before a spawn or prompt - bufio errors are sticky and surface at the next write -, stderr, in-memory buffer, cleanup after a failed start); the final flush of standard output at the end of a run is the durability point and must reach the caller; (CLOSE) close() removes the stream from its table and calls Close() unconditionally in both branches; (CLOSEALL) closeAll closes every input and output stream and flushes standard output unconditionally and is deferred by executeAll; (FLUSH-BEFORE) every process start and every open of a file for writing is preceded in its function by a flush of standard output; (ONE-STREAM) getOutputStream looks the name up before opening and registers the new stream under the same key; the names /dev/stdout and /dev/stderr are never opened as files, whatever the redirection operator; (CHILD-WRITER) a writer shared with the interpreter is not handed to a child process that outlives the call unless it is safe for concurrent use; (OWNER) Close() on the current input is guarded by a comparison with the caller-owned stdin", ruleOutput)
}

var errDropTable = map[string]string{
	"(*interp.interp).joinFields:writeCSV":         "target is an in-memory bytes.Buffer, which cannot fail",
	"(*interp.interp).nextLine:Close":              "closing an exhausted read-only input file",
	"(*interp.interp).closeAll:Close":              "closing inputs and remaining output streams at the end of the run: best effort (a script that cares calls close(), which reports the error)",
	"(*interp.interp).closeAll:Flush:errorOutput":  "standard error: best effort",
	"(*interp.interp).flushOutputAndError:Flush":   "best-effort flush before a spawn / prompt; bufio write errors are sticky and surface at the next print",
	"(*interp.interp).printErrorf:Flush":           "flushing around a diagnostic message: best effort",
	"(*interp.interp).printErrorf:Fprintf":         "writing a diagnostic to standard error: best effort",
	"interp.newOutCmdStream:Close":                 "cleanup of the pipe after the command failed to start; the start error is returned",
	"interp.newInCmdStream:Close":                  "cleanup of the pipe after the command failed to start; the start error is returned",
	"interp.parseFloatPrefix:ParseFloat":           "by design: a range error yields +-Inf, which is the AWK result for an overflowing numeric prefix",
	"interp.parseHexFloatPrefix:ParseFloat":        "by design: a range error yields +-Inf",
	"(*interp.interp).callBuiltin:flushAll":        "flush before system(): reports failures on stderr itself; returns a bool, not an error",
	"(*interp.interp).getline:flushOutputAndError": "no result",
	"(*interp.interp).callBuiltin:Seed":            "no result",
	"(*interp.interp).execute:WriteString":         "strings.Builder.WriteString never fails",
	"(*interp.interp).closeAll:Flush:output":       "FINAL FLUSH OF STANDARD OUTPUT - must not be dropped",
	// by role (the stream that is closed), wherever the call sits
	"role:Close:input": "closing an exhausted read-only input file (the current main input)",
}

func ruleOutput(c *Ctx) {
	fns := c.srcFuncs("interp")
	// ---- ERRDROP
	nDrop := 0
	for _, fn := range fns {
		fn := fn
		report := func(in ssa.Instruction, callee string, recvDesc string, role string) {
			nDrop++
			k := fnKey(fn) + ":" + callee
			key := "errdrop:" + k
			if recvDesc != "" {
				key += ":" + recvDesc
			}
			if recvDesc != "" {
				if why, ok := errDropTable[k+":"+recvDesc]; ok {
					if strings.HasPrefix(why, "FINAL FLUSH") {
						c.bad(key, in.Pos(), "the error of the final flush of standard output in %s is discarded: when the last buffered bytes cannot be written (full disk, closed pipe) the run still reports success", fnKey(fn))
					} else {
						c.ok(key, in.Pos(), "accepted: %s", why)
					}
					return
				}
			}
			if why, ok := errDropTable[k]; ok {
				c.ok(key, in.Pos(), "accepted: %s", why)
				return
			}
			if why, ok := errDropTable["role:"+callee+":"+role]; ok && role != "" {
				c.ok(key, in.Pos(), "accepted by role: %s", why)
				return
			}
			// a helper that only accepted functions call (the site moved into a function of its own)
			var viaCallers func(g *ssa.Function, depth int) (string, bool)
			viaCallers = func(g *ssa.Function, depth int) (string, bool) {
				if depth > 2 {
					return "", false
				}
				reason, n := "", 0
				for _, h := range fns {
					calls := false
					allInstrs(h, func(i2 ssa.Instruction) {
						if ci, ok := i2.(ssa.CallInstruction); ok && ci.Common().StaticCallee() == g {
							calls = true
						}
					})
					if !calls || h == g {
						continue
					}
					n++
					if why, ok := errDropTable[fnKey(h)+":"+callee]; ok && !strings.HasPrefix(why, "FINAL FLUSH") {
						reason = why
						continue
					}
					why, ok := viaCallers(h, depth+1)
					if !ok {
						return "", false
					}
					reason = why
				}
				return reason, n > 0 && reason != ""
			}
			if why, ok := viaCallers(fn, 0); ok && recvDesc == "" {
				c.ok(key, in.Pos(), "accepted through its only caller(s): %s", why)
				return
			}
			c.bad(key, in.Pos(), "%s discards the error returned by %s and the site is not in the accepted table: a failed write/flush/close here goes unnoticed and the run reports success", fnKey(fn), callee)
		}
		allInstrs(fn, func(in ssa.Instruction) {
			var cc *ssa.CallCommon
			var val ssa.Value
			switch x := in.(type) {
			case *ssa.Call:
				cc, val = x.Common(), x
			case *ssa.Defer:
				cc = x.Common()
			default:
				return
			}
			sig := cc.Signature()
			res := sig.Results()
			if res.Len() == 0 || types.TypeString(res.At(res.Len()-1).Type(), nil) != "error" {
				return
			}
			name := ""
			if cc.IsInvoke() {
				name = cc.Method.Name()
			} else if f := cc.StaticCallee(); f != nil {
				name = f.Name()
			} else {
				name = "dynamic"
			}
			// which stream? (for Flush in closeAll distinguish output / errorOutput)
			recvDesc := ""
			if cc.IsInvoke() && name == "Flush" {
				recvDesc = traceInterpField(cc.Value, 0)
			}
			closeRole := ""
			if cc.IsInvoke() && name == "Close" {
				closeRole = traceInterpField(cc.Value, 0)
			}
			dropped := false
			if val == nil {
				dropped = true // deferred call: result discarded
			} else if res.Len() == 1 {
				dropped = len(*val.Referrers()) == 0
			} else {
				has := false
				for _, r := range *val.Referrers() {
					if ex, ok := r.(*ssa.Extract); ok && ex.Index == res.Len()-1 && len(*ex.Referrers()) > 0 {
						has = true
					}
				}
				dropped = !has
			}
			if dropped {
				// by role: the call writes into an in-memory buffer handed to it (a *bytes.Buffer or *strings.Builder
				// among its arguments, also when boxed into an io.Writer): such a write cannot fail
				if closeRole == "" && recvDesc == "" {
					for _, a := range cc.Args {
						v := a
						for {
							if mi, ok := v.(*ssa.MakeInterface); ok {
								v = mi.X
								continue
							}
							if ci, ok := v.(*ssa.ChangeInterface); ok {
								v = ci.X
								continue
							}
							break
						}
						if isNamed(v.Type(), "bytes", "Buffer") || isNamed(v.Type(), "strings", "Builder") {
							if _, isPtr := v.Type().(*types.Pointer); isPtr {
								closeRole = "memory-target"
							}
						}
					}
					if closeRole == "memory-target" {
						nDrop++
						c.ok("errdrop:"+fnKey(fn)+":"+name, in.Pos(), "accepted by role: the target handed to %s is an in-memory buffer, which cannot fail", name)
						return
					}
				}
				report(in, name, recvDesc, closeRole)
			}
		})
	}
	c.atLeast("discarded error results", nDrop, 12)

	// ---- CLOSE (builtin): the handler of close() evaluated on the SSA form for "the name denotes an input stream"
	// and "the name denotes an output stream": on every path the entry is deleted from its table and the stream's
	// Close is called
	vm := buildVMModel(c)
	info := vm.pkg.TypesInfo
	_ = info
	if cb := c.ssaFunc("interp", "interp.callBuiltin"); cb != nil {
		closeVal := int64(-1)
		for _, k := range c.constsOfType("internal/compiler", "BuiltinOp") {
			if k.Name() == "BuiltinClose" {
				closeVal, _ = constant.Int64Val(k.Val())
			}
		}
		var entry *ssa.BasicBlock
		for _, b := range cb.Blocks {
			if len(b.Instrs) == 0 {
				continue
			}
			iff, ok := b.Instrs[len(b.Instrs)-1].(*ssa.If)
			if !ok {
				continue
			}
			if bo, ok := iff.Cond.(*ssa.BinOp); ok && bo.Op == token.EQL {
				if k, ok := bo.Y.(*ssa.Const); ok && k.Value != nil && isNamed(bo.X.Type(), modPath+"/internal/compiler", "BuiltinOp") {
					if v, ok := constant.Int64Val(k.Value); ok && v == closeVal && entry == nil {
						entry = b.Succs[0]
					}
				}
			}
		}
		if entry == nil || closeVal < 0 {
			c.undecided("close-builtin:anchor", cb.Pos(), "the handler of BuiltinClose was not found in callBuiltin's dispatch")
		} else {
			ipkg := c.ssaPkg("interp")
			nBr := 0
			for _, table := range []string{"inputStreams", "outputStreams"} {
				nBr++
				e := &sengine{pkg: ipkg, ctx: c}
				e.load = func(p *spath, fr *sframe, addr iv, in *ssa.UnOp) (iv, bool) {
					if f, x := fieldOfAddr(in.X); f != nil && isInterp(x.Type()) {
						switch f.Name() {
						case "inputStreams", "outputStreams", "scanners":
							return ivSym("table:" + f.Name()), true
						}
					}
					return iv{}, false
				}
				e.lookup = func(p *spath, fr *sframe, x *ssa.Lookup, m, key iv) (iv, bool) {
					if m.k != 's' {
						return iv{}, false
					}
					val := iv{k: 'n'}
					if m.s == "table:"+table {
						val = ivSym("stream")
					}
					if x.CommaOk {
						return ivTuple(val, ivBool(val.k == 's')), true
					}
					return val, true
				}
				e.binop = func(op token.Token, a, b iv) (iv, bool) {
					if op != token.EQL && op != token.NEQ {
						return iv{}, false
					}
					if (a.k == 's' && b.k == 'n') || (a.k == 'n' && b.k == 's') {
						return ivBool(op == token.NEQ), true
					}
					return iv{}, false
				}
				e.builtin = func(p *spath, fr *sframe, call *ssa.Call, name string, args []iv) (iv, bool) {
					if name == "delete" && len(args) == 2 && args[0].k == 's' {
						p.notes["delete:"+args[0].s]++
					}
					return iv{}, false
				}
				var eng = e
				e.call = func(p *spath, fr *sframe, call *ssa.Call, callee *ssa.Function, args []iv) (iv, callAction) {
					if call.Call.IsInvoke() {
						recv := eng.val(fr, call.Call.Value)
						if call.Call.Method.Name() == "Close" && recv.k == 's' && recv.s == "stream" {
							p.notes["closed"]++
							return iv{}, callHandled
						}
						return iv{}, callHandled
					}
					if callee != nil && callee.Name() == "replaceTop" {
						return iv{}, callStop // the result is pushed: the handler is done
					}
					return iv{}, callDefault
				}
				e.enter = func(callee *ssa.Function, args []iv) bool {
					for _, a := range args {
						if a.k == 's' && a.s == "stream" {
							return true
						}
					}
					// a helper that does the closing itself: it looks the name up in the stream tables
					touches := false
					allInstrs(callee, func(in ssa.Instruction) {
						if fa, ok := in.(*ssa.FieldAddr); ok {
							if f, x := fieldOfAddr(fa); f != nil && isInterp(x.Type()) && (f.Name() == "inputStreams" || f.Name() == "outputStreams") {
								touches = true
							}
						}
					})
					return touches
				}
				e.startAt(cb, entry, nil)
				paths, bad := 0, 0
				for _, o := range e.outcomes {
					if o.panicked {
						continue
					}
					paths++
					if o.notes["delete:table:"+table] == 0 || o.notes["closed"] == 0 {
						bad++
					}
				}
				key := "close-builtin:" + table
				if len(e.problems) > 0 {
					c.undecided(key, cb.Pos(), "the close() handler could not be evaluated: %v", e.problems)
					continue
				}
				c.check(paths > 0 && bad == 0, key, entry.Instrs[0].Pos(), "close() of a name in "+table+": on every path the entry is removed from the table and the stream is closed", "close(): for a name in "+table+" the stream is not both removed from its table and closed on every path: after a failing close the dead stream stays registered (later output to the same name is lost) or the stream is never closed")
			}
			c.atLeast("branches of close()", nBr, 2)
		}
	}

	// ---- CLOSEALL: every stream table is ranged over with Close on each element, and standard output is flushed,
	// at points every return of closeAll is dominated by (also through helpers it calls unconditionally)
	if ca := c.ssaFunc("interp", "interp.closeAll"); ca != nil {
		closes := map[string]bool{}
		flushOut := false
		var scanFn func(fn *ssa.Function, depth int)
		scanFn = func(fn *ssa.Function, depth int) {
			if depth > 2 || len(fn.Blocks) == 0 {
				return
			}
			var rets []*ssa.BasicBlock
			for _, b := range fn.Blocks {
				if len(b.Instrs) > 0 {
					if _, ok := b.Instrs[len(b.Instrs)-1].(*ssa.Return); ok {
						rets = append(rets, b)
					}
				}
			}
			uncond := func(b *ssa.BasicBlock) bool {
				for _, r := range rets {
					if !b.Dominates(r) {
						return false
					}
				}
				return len(rets) > 0
			}
			for _, b := range fn.Blocks {
				for _, in := range b.Instrs {
					switch x := in.(type) {
					case *ssa.Range:
						f := interpFieldLoad(x.X)
						if f == "" || !uncond(b) {
							continue
						}
						// a Close on the element somewhere in the loop
						allInstrs(fn, func(i2 ssa.Instruction) {
							call, ok := i2.(ssa.CallInstruction)
							if !ok || !call.Common().IsInvoke() || call.Common().Method.Name() != "Close" {
								return
							}
							ex, ok := call.Common().Value.(*ssa.Extract)
							if !ok {
								return
							}
							nx, ok := ex.Tuple.(*ssa.Next)
							if !ok || nx.Iter != ssa.Value(x) {
								return
							}
							// every iteration closes its element: from the body's first block the loop head is only
							// reached through the block that calls Close, and nothing leaves the loop from inside the body
							head := nx.Block()
							if len(head.Instrs) == 0 {
								return
							}
							iff, ok := head.Instrs[len(head.Instrs)-1].(*ssa.If)
							if !ok {
								return
							}
							_ = iff
							body, closeBlk := head.Succs[0], i2.Block()
							if body != closeBlk && reachableAvoiding(body, closeBlk)[head] {
								return // an iteration can skip the Close (a conditional continue)
							}
							fromBody := reachableAvoiding(body, head)
							fromBody[body] = true
							inLoop := map[*ssa.BasicBlock]bool{}
							for lb := range fromBody {
								if lb == head || reachableFrom(lb)[head] {
									inLoop[lb] = true // on the cycle: it can get back to the loop head
								}
							}
							for lb := range inLoop {
								for _, sc := range lb.Succs {
									if sc != head && !inLoop[sc] {
										if len(sc.Instrs) > 0 {
											if _, isPanic := sc.Instrs[len(sc.Instrs)-1].(*ssa.Panic); isPanic {
												continue
											}
										}
										return // the loop is left early (break / return): the remaining streams stay open
									}
								}
							}
							closes[f] = true
						})
					case *ssa.Call:
						cc := x.Common()
						flushedField := ""
						if cc.IsInvoke() && cc.Method.Name() == "Flush" {
							flushedField = traceInterpField(cc.Value, 0)
							if flushedField != "output" && interpFieldAliasOf(c, flushedField) == "output" {
								flushedField = "output" // a field that only ever holds p.output seen as a flusher
							}
						}
						if flushedField == "output" {
							// reached under nothing but the "is it a flusher" test (a type test, or a nil test of the cached
							// flusher): the test's block is unconditional
							for _, d := range fn.Blocks {
								if d == b || !d.Dominates(b) || !uncond(d) || len(d.Instrs) == 0 {
									continue
								}
								if iff, ok := d.Instrs[len(d.Instrs)-1].(*ssa.If); ok && d.Succs[0] == b {
									if ex, ok := iff.Cond.(*ssa.Extract); ok {
										if _, isTA := ex.Tuple.(*ssa.TypeAssert); isTA {
											flushOut = true
										}
									}
									if bo, ok := iff.Cond.(*ssa.BinOp); ok && bo.Op == token.NEQ && isNilConst(bo.Y) {
										if n := interpFieldLoad(bo.X); n != "" && (n == "output" || interpFieldAliasOf(c, n) == "output") {
											flushOut = true
										}
									}
								}
							}
							if uncond(b) {
								flushOut = true
							}
						}
						if cal := cc.StaticCallee(); cal != nil && cal.Pkg == fn.Pkg && uncond(b) {
							scanFn(cal, depth+1)
						}
					}
				}
			}
		}
		scanFn(ca, 0)
		c.check(closes["inputStreams"] && closes["outputStreams"] && flushOut, "closeAll:unconditional", ca.Pos(), "closeAll closes every input stream and every output stream and flushes standard output as unconditional steps", fmt.Sprintf("closeAll no longer closes all streams and flushes standard output unconditionally (close loops found: %v, stdout flush: %v): output buffered for a file or command before the end of the run (or before a cancellation) is lost", keys(closes), flushOut))
	} else {
		c.undecided("anchor:closeAll", token.NoPos, "closeAll not found")
	}

	// ---- FLUSH-BEFORE
	isFlushCall := func(in ssa.Instruction) bool {
		return callsNamed(in, "flushOutputAndError") || callsNamed(in, "flushAll")
	}
	nSp := 0
	for _, fn := range fns {
		fn := fn
		allInstrs(fn, func(in ssa.Instruction) {
			call, ok := in.(ssa.CallInstruction)
			if !ok {
				return
			}
			kind := ""
			cc := call.Common()
			if f := cc.StaticCallee(); f != nil {
				switch f.Name() {
				case "newOutCmdStream", "newInCmdStream":
					kind = "process start via " + f.Name()
				}
				if o := calleeObj(call); o != nil && procStartMethods[o.FullName()] && fn.Name() != "newOutCmdStream" && fn.Name() != "newInCmdStream" {
					kind = "process start"
				}
			}
			if !cc.IsInvoke() && cc.StaticCallee() == nil && isNamed(cc.Value.Type(), modPath+"/interp", "OpenFileFunc") && len(cc.Args) >= 2 {
				if fl := constInts(cc.Args[1], 0); fl != nil {
					for _, f := range fl {
						if f&(oWRONLY|oRDWR|oCREATE|oTRUNC|oAPPEND) != 0 {
							kind = "open for writing"
						}
					}
				}
			}
			if kind == "" {
				return
			}
			nSp++
			okF := false
			for _, b := range fn.Blocks {
				for i, i2 := range b.Instrs {
					if !isFlushCall(i2) {
						continue
					}
					if b == in.Block() && i < instrIndex(b, in) {
						okF = true
					}
					if b != in.Block() && b.Dominates(in.Block()) {
						okF = true
					}
				}
			}
			key := "flush-before:" + fnKey(fn) + ":" + kind
			c.check(okF, key, in.Pos(), "standard output is flushed before the "+kind, fnKey(fn)+": "+kind+" is not preceded by a flush of standard output: output the program printed earlier can appear after (or interleaved with) the child's / the file's output")
		})
	}
	c.atLeast("spawn/open-for-write sites", nSp, 4)

	// ---- FLUSH-ALL before a synchronous child: a function that starts a process and waits for it in the same call
	// (system()) must first flush every output stream - the function that ranges over the table of output streams
	// flushing each - not just standard output: the child may read a file or feed on a pipe the program wrote to
	{
		flushAllFns := map[*ssa.Function]bool{}
		for _, fn := range fns {
			ranges, flushes := false, false
			allInstrs(fn, func(in ssa.Instruction) {
				if r, ok := in.(*ssa.Range); ok && interpFieldLoad(r.X) == "outputStreams" {
					ranges = true
				}
				if call, ok := in.(ssa.CallInstruction); ok {
					cc := call.Common()
					if cc.IsInvoke() && cc.Method.Name() == "Flush" {
						flushes = true
					}
					if cal := cc.StaticCallee(); cal != nil && cal.Pkg == fn.Pkg {
						has := false
						allInstrs(cal, func(i2 ssa.Instruction) {
							if c2, ok := i2.(ssa.CallInstruction); ok && c2.Common().IsInvoke() && c2.Common().Method.Name() == "Flush" {
								has = true
							}
						})
						if has {
							flushes = true
						}
					}
				}
			})
			if ranges && flushes {
				flushAllFns[fn] = true
			}
		}
		nSync := 0
		for _, fn := range fns {
			var start, wait ssa.Instruction
			allInstrs(fn, func(in ssa.Instruction) {
				call, ok := in.(ssa.CallInstruction)
				if !ok {
					return
				}
				if o := calleeObj(call); o != nil {
					switch o.FullName() {
					case "(*os/exec.Cmd).Start":
						start = in
					case "(*os/exec.Cmd).Wait":
						wait = in
					}
				}
				if cal := call.Common().StaticCallee(); cal != nil && cal.Name() == "waitExitCode" {
					wait = in
				}
			})
			if start == nil || wait == nil {
				continue
			}
			nSync++
			okAll := false
			for _, b := range fn.Blocks {
				for i, i2 := range b.Instrs {
					call, ok := i2.(ssa.CallInstruction)
					if !ok {
						continue
					}
					cal := call.Common().StaticCallee()
					if cal == nil || !flushAllFns[cal] {
						continue
					}
					if (b == start.Block() && i < instrIndex(b, start)) || (b != start.Block() && b.Dominates(start.Block())) {
						okAll = true
					}
				}
			}
			c.check(okAll, "flush-all-before-sync-child:"+fnKey(fn), posOr(start.Pos(), fn.Pos()), "every output stream is flushed before the child that is waited for is started", fnKey(fn)+" starts a child process and waits for it without first flushing every output stream (only standard output, or nothing): what the program wrote to a file or pipe is not there when the child looks at it")
		}
		c.atLeast("functions that run a child to completion", nSync, 1)
	}

	// ---- RAW-DEST: the destination behind a buffered stream (the file or pipe a stream type holds next to its
	// embedded *bufio.Writer) is closed, never written directly: a direct write overtakes what is still buffered
	{
		nRaw := 0
		for _, fn := range fns {
			fn := fn
			allInstrs(fn, func(in ssa.Instruction) {
				call, ok := in.(ssa.CallInstruction)
				if !ok || !call.Common().IsInvoke() {
					return
				}
				switch call.Common().Method.Name() {
				case "Write", "WriteString", "ReadFrom", "WriteByte", "WriteRune":
				default:
					return
				}
				// receiver: (a type assertion of) a load of a non-Writer field of a struct that embeds *bufio.Writer
				v := call.Common().Value
				for i := 0; i < 4; i++ {
					switch x := v.(type) {
					case *ssa.Extract:
						v = x.Tuple
						continue
					case *ssa.TypeAssert:
						v = x.X
						continue
					case *ssa.ChangeInterface:
						v = x.X
						continue
					}
					break
				}
				f, base := loadedField(v)
				if f == nil {
					return
				}
				st, ok := deref(base.Type()).Underlying().(*types.Struct)
				if !ok {
					return
				}
				embeds := false
				for i := 0; i < st.NumFields(); i++ {
					if st.Field(i).Embedded() && types.TypeString(st.Field(i).Type(), nil) == "*bufio.Writer" {
						embeds = true
					}
				}
				if !embeds || f.Embedded() {
					return
				}
				nRaw++
				c.bad("raw-dest-write:"+fnKey(fn), posOr(in.Pos(), fn.Pos()), "%s writes to %s, the destination behind a buffered stream, directly: the bytes overtake whatever is still in the stream's buffer, so output arrives out of program order", fnKey(fn), f.Name())
			})
		}
		if nRaw == 0 {
			c.ok("raw-dest-write", token.NoPos, "no stream type writes to the destination behind its buffer directly")
		}
	}

	// ---- ONE-STREAM and special names
	gos := c.ssaFunc("interp", "interp.getOutputStream")
	if gos == nil {
		c.undecided("anchor:getOutputStream", token.NoPos, "getOutputStream not found")
	} else {
		var lookup *ssa.Lookup
		var updates []*ssa.MapUpdate
		var openCall ssa.Instruction
		special := map[string]*ssa.BasicBlock{}
		specialSucc := map[string]int{}
		allInstrs(gos, func(in ssa.Instruction) {
			switch x := in.(type) {
			case *ssa.Lookup:
				if interpFieldLoad(x.X) == "outputStreams" && lookup == nil {
					lookup = x
				}
			case *ssa.MapUpdate:
				if interpFieldLoad(x.Map) == "outputStreams" {
					updates = append(updates, x)
				}
			case *ssa.Call:
				cc := x.Common()
				if !cc.IsInvoke() && cc.StaticCallee() == nil && isNamed(cc.Value.Type(), modPath+"/interp", "OpenFileFunc") {
					openCall = in
				}
			case *ssa.BinOp:
				if x.Op == token.EQL {
					for _, op := range []ssa.Value{x.X, x.Y} {
						if k, ok := op.(*ssa.Const); ok && k.Value != nil {
							s := strings.Trim(k.Value.ExactString(), `"`)
							if s == "/dev/stdout" || s == "/dev/stderr" {
								for _, r := range *x.Referrers() {
									if ifi, ok := r.(*ssa.If); ok {
										special[s] = ifi.Block()
										specialSucc[s] = 0
									}
								}
							}
						}
					}
				}
			}
		})
		okOne := lookup != nil
		for _, u := range updates {
			if lookup == nil || u.Key != lookup.Index || !lookup.Block().Dominates(u.Block()) {
				okOne = false
			}
		}
		// registrations made in a helper that getOutputStream calls with the looked-up name
		nUpd := len(updates)
		for _, h := range fns {
			if h == gos {
				continue
			}
			allInstrs(h, func(in ssa.Instruction) {
				mu, ok := in.(*ssa.MapUpdate)
				if !ok || interpFieldLoad(mu.Map) != "outputStreams" {
					return
				}
				nUpd++
				par, isPar := mu.Key.(*ssa.Parameter)
				idx := -1
				if isPar {
					for i, hp := range h.Params {
						if hp == par {
							idx = i
						}
					}
				}
				sites := 0
				for _, g := range fns {
					allInstrs(g, func(gin ssa.Instruction) {
						call, ok := gin.(ssa.CallInstruction)
						if !ok || call.Common().StaticCallee() != h {
							return
						}
						sites++
						args := call.Common().Args
						if g != gos || lookup == nil || idx < 0 || idx >= len(args) || args[idx] != lookup.Index || !lookup.Block().Dominates(gin.Block()) {
							okOne = false
						}
					})
				}
				if sites == 0 {
					okOne = false
				}
			})
		}
		if nUpd < 2 {
			okOne = false
		}
		c.check(okOne, "one-stream", gos.Pos(), "the stream table is consulted first and every newly opened stream is registered under the looked-up name", "getOutputStream does not register every stream it opens under the name it looked up (after looking it up): the same name could denote two open streams, so a file is truncated twice or output goes to a stale stream")
		// special names: in whichever function opens a file for writing, the open is reached only when the name
		// has been compared with (and is not) /dev/stdout and /dev/stderr
		_ = special
		_ = specialSucc
		_ = openCall
		nOpenW := 0
		for _, of := range fns {
			var opens []ssa.Instruction
			sp := map[string]*ssa.BasicBlock{}
			spSucc := map[string]int{}
			allInstrs(of, func(in ssa.Instruction) {
				switch x := in.(type) {
				case *ssa.Call:
					cc := x.Common()
					if !cc.IsInvoke() && cc.StaticCallee() == nil && isNamed(cc.Value.Type(), modPath+"/interp", "OpenFileFunc") && len(cc.Args) >= 2 {
						if fl := constInts(cc.Args[1], 0); fl != nil {
							for _, f := range fl {
								if f&(oWRONLY|oRDWR|oCREATE|oTRUNC|oAPPEND) != 0 {
									opens = append(opens, in)
									break
								}
							}
						}
					}
				case *ssa.BinOp:
					if x.Op == token.EQL || x.Op == token.NEQ {
						for _, op := range []ssa.Value{x.X, x.Y} {
							if k, ok := op.(*ssa.Const); ok && k.Value != nil {
								s := strings.Trim(k.Value.ExactString(), `"`)
								if s == "/dev/stdout" || s == "/dev/stderr" {
									for _, r := range *x.Referrers() {
										if ifi, ok := r.(*ssa.If); ok {
											sp[s] = ifi.Block()
											spSucc[s] = 0
											if x.Op == token.NEQ {
												spSucc[s] = 1
											}
										}
									}
								}
							}
						}
					}
				}
			})
			for _, oc := range opens {
				nOpenW++
				for _, s := range []string{"/dev/stdout", "/dev/stderr"} {
					key := "special-name:" + s
					b := sp[s]
					if b == nil {
						c.bad(key, oc.Pos(), "%s does not compare the name with %q before opening a file: the name would be opened as a separate file stream and its output interleaved out of order with standard output", fnKey(of), s)
						continue
					}
					okS := b.Dominates(oc.Block()) && !reachableAvoiding(b.Succs[spSucc[s]], b)[oc.Block()]
					c.check(okS, key, oc.Pos(), "every file open is reached only when the name is not "+s, "a file open for writing can be reached with the name "+s+" (e.g. for one of the redirection operators): it would be opened as a separate stream instead of using the existing standard stream, so output is reordered")
				}
			}
		}
		c.atLeast("opens for writing", nOpenW, 1)
	}

	// ---- CHILD-WRITER
	nCW := 0
	cwIdx := map[string]int{}
	for _, fn := range fns {
		fn := fn
		allInstrs(fn, func(in ssa.Instruction) {
			st, ok := in.(*ssa.Store)
			if !ok {
				return
			}
			f, x := fieldOfAddr(st.Addr)
			if f == nil || !isNamed(x.Type(), "os/exec", "Cmd") || (f.Name() != "Stdout" && f.Name() != "Stderr") {
				return
			}
			src := interpFieldLoad(st.Val)
			host := fn // the function that decides what the child gets (and that waits for it, or not)
			type handover struct {
				src  string
				host *ssa.Function
				pos  token.Pos
			}
			var hos []handover
			if src != "" {
				hos = append(hos, handover{src, fn, in.Pos()})
			} else if prm, fldIdx := structParamField(st.Val); prm != nil {
				// the descriptors come in through a small struct parameter (`execShell(cmd, shellStdio{...})`): what each
				// call site puts into that field
				{
					fld := struct{ Field int }{fldIdx}
					pst, _ := prm.Type().Underlying().(*types.Struct)
					idx := -1
					for i, q := range fn.Params {
						if q == prm {
							idx = i
						}
					}
					if pst != nil && idx >= 0 {
						fname := pst.Field(fld.Field).Name()
						for _, caller := range fns {
							caller := caller
							allInstrs(caller, func(ci ssa.Instruction) {
								call, ok := ci.(ssa.CallInstruction)
								if !ok || call.Common().StaticCallee() != fn || idx >= len(call.Common().Args) {
									return
								}
								if v := componentFieldValue(call.Common().Args[idx], fname, 0); v != nil {
									if s2 := interpFieldLoad(v); s2 != "" {
										hos = append(hos, handover{s2, caller, ci.Pos()})
									}
								}
							})
						}
					}
				}
			}
			_ = host
			for _, ho := range hos {
			src, host := ho.src, ho.host
			in := posInstr{in, ho.pos}
			nCW++
			// does this function wait for the child before returning?
			waits := false
			allInstrs(host, func(i2 ssa.Instruction) {
				if callsNamed(i2, "waitExitCode") || callsNamed(i2, "Wait") {
					waits = true
				}
			})
			fn := host
			// keyed by what is handed to which descriptor (not by the function, which a refactoring may split):
			// hand-overs to a child the interpreter waits for are a class of their own
			// the field is named by its role: a field that is assigned Config.Output is "output" under any name
			role := src
			if r := configRoleOfField(c, src); r != "" {
				role = r
			}
			// the interpreter's own buffer around the standard output is never handed to a child at all: os/exec copies
			// the child's output into it from another goroutine, and when that copy fails (a background process keeps
			// the pipe open past WaitDelay) the error sticks to the buffer - everything printed afterwards is lost
			if f.Name() == "Stdout" {
				own := fieldHoldsOwnBuffer(c, src)
				c.check(own == token.NoPos, fmt.Sprintf("child-writer:own-buffer:%s#%d", f.Name(), cwIdx["own:"+f.Name()]+1), posOr(own, in.Pos()), "what a child gets as its standard output is never a buffer the interpreter made for itself",
					fmt.Sprintf("%s hands p.%s to a child process, a field that can hold the buffered writer the interpreter builds around os.Stdout: the child's output is copied into that buffer concurrently with the program's own prints, and a command that leaves a background process behind (system(\"sleep 1 &\")) makes the copy fail with an error that sticks to the buffer - all later output of the program is lost", fnKey(host), src))
				cwIdx["own:"+f.Name()]++
			}
			key := fmt.Sprintf("child-writer:%s<-%s", f.Name(), role)
			if waits {
				key = fmt.Sprintf("child-writer-waited:%s<-%s", f.Name(), role)
			}
			cwIdx[key]++
			if cwIdx[key] > 1 {
				key += "#" + itoa(int64(cwIdx[key]))
			}
			switch {
			case waits:
				c.ok(key, in.Pos(), "the interpreter blocks until the child exits, so the child's copier goroutine and the interpreter never write concurrently")
			case src == "errorOutput":
				c.ok(key, in.Pos(), "standard error is written by the interpreter only through printErrorf, unbuffered in the default configuration; tolerated")
			default:
				c.bad(key, in.Pos(), "%s hands p.%s (the caller's Config.Output - a bytes.Buffer or bufio.Writer, say, not safe for concurrent use) to a child process that keeps running after the call: unless it is an *os.File, os/exec copies the child's output into it from another goroutine while the interpreter keeps printing to it - a data race that can lose or corrupt output", fnKey(fn), src)
			}
			}
		})
	}
	c.atLeast("interpreter writers handed to child processes", nCW, 3)

	// ---- OWNER: Close on p.input guarded by != p.stdin
	nOwn := 0
	for _, fn := range fns {
		fn := fn
		allInstrs(fn, func(in ssa.Instruction) {
			call, ok := in.(ssa.CallInstruction)
			if !ok || !call.Common().IsInvoke() || call.Common().Method.Name() != "Close" {
				return
			}
			// receiver derived from a type assertion on p.input
			ta, ok := call.Common().Value.(*ssa.Extract)
			var src ssa.Value
			if ok {
				if t, ok := ta.Tuple.(*ssa.TypeAssert); ok {
					src = t.X
				}
			}
			if t, ok := call.Common().Value.(*ssa.TypeAssert); ok {
				src = t.X
			}
			if src == nil || interpFieldLoad(src) != "input" {
				return
			}
			nOwn++
			guard := false
			for _, b := range fn.Blocks {
				if len(b.Instrs) == 0 || !b.Dominates(in.Block()) {
					continue
				}
				ifi, ok := b.Instrs[len(b.Instrs)-1].(*ssa.If)
				if !ok {
					continue
				}
				bo, ok := ifi.Cond.(*ssa.BinOp)
				if !ok || bo.Op != token.NEQ {
					continue
				}
				a, d := fieldThroughIface(bo.X), fieldThroughIface(bo.Y)
				if (a == "input" && d == "stdin") || (a == "stdin" && d == "input") {
					if !reachableAvoiding(b.Succs[1], b)[in.Block()] {
						guard = true
					}
				}
			}
			c.check(guard, "close-owner:"+fnKey(fn), in.Pos(), "the current input is closed only when it is not the caller's Stdin", fnKey(fn)+" closes the current input without checking that it is not the caller-owned Stdin: a Config.Stdin that implements io.Closer (os.Stdin) is closed by the interpreter and cannot be used for the next run")
		})
	}
	c.atLeast("Close() calls on the current input", nOwn, 2)

	// ---- WAIT: closing a command stream always waits for the command (its exit status is close()'s
	// result, and what it still writes to the shared output must be delivered before the run goes on)
	nWait := 0
	for _, fn := range fns {
		if fn.Name() != "Close" || fn.Signature.Recv() == nil {
			continue
		}
		rt := named(deref(fn.Signature.Recv().Type()))
		if rt == nil {
			continue
		}
		st, ok := rt.Underlying().(*types.Struct)
		if !ok {
			continue
		}
		// the command may sit in the stream struct itself or in a struct embedded in it
		var hasCmdIn func(s *types.Struct, d int) bool
		hasCmdIn = func(s *types.Struct, d int) bool {
			for i := 0; i < s.NumFields(); i++ {
				if isNamed(deref(s.Field(i).Type()), "os/exec", "Cmd") {
					return true
				}
				if inner, ok := deref(s.Field(i).Type()).Underlying().(*types.Struct); ok && s.Field(i).Embedded() && d < 3 {
					if nm := named(deref(s.Field(i).Type())); nm != nil && nm.Obj().Pkg() != nil && nm.Obj().Pkg().Path() == modPath+"/interp" && hasCmdIn(inner, d+1) {
						return true
					}
				}
			}
			return false
		}
		if !hasCmdIn(st, 0) {
			continue
		}
		nWait++
		var waits []*ssa.BasicBlock
		for _, b := range fn.Blocks {
			for _, in := range b.Instrs {
				if call, ok := in.(*ssa.Call); ok {
					if cal := call.Call.StaticCallee(); cal != nil {
						if cal.Name() == "waitExitCode" || cal.Name() == "Wait" {
							waits = append(waits, b)
						} else if cal.Pkg == fn.Pkg && len(cal.Blocks) > 0 {
							// a helper of the package that waits on every path through it
							if _, calls := mustEffects(cal, 0); calls["waitExitCode"] || calls["Wait"] {
								waits = append(waits, b)
							}
						}
					}
				}
			}
		}
		bad := token.NoPos
		for _, b := range fn.Blocks {
			if len(b.Instrs) == 0 {
				continue
			}
			ret, ok := b.Instrs[len(b.Instrs)-1].(*ssa.Return)
			if !ok {
				continue
			}
			dominated := false
			for _, w := range waits {
				if w == b || w.Dominates(b) {
					dominated = true
				}
			}
			if dominated {
				continue
			}
			// the one early return allowed: the stream was closed before
			rr := retResults(ret)
			early := false
			if len(rr) == 1 {
				if isDoubleCloseErr(rr[0], 0) {
					early = true
				}
			}
			if !early {
				bad = posOr(ret.Pos(), fn.Pos())
			}
		}
		c.check(bad == token.NoPos && len(waits) > 0, "wait-always:"+fnKey(fn), bad,
			"every path (except the already-closed one) waits for the command",
			fnKey(fn)+" can return without waiting for the command (for example after a failed flush): close() then reports -1 instead of the command's status and output the command still writes is lost or arrives after later output")
	}
	c.atLeast("command streams with a Close method", nWait, 2)
	closeStatus(c)

	// ---- AS-GIVEN: the caller's writers are used as they are; only the default stdout is buffered by the interpreter
	if sec := c.ssaFunc("interp", "interp.setExecuteConfig"); sec != nil {
		for _, want := range []string{"output", "errorOutput"} {
			nSt := 0
			bad := ""
			var badPos token.Pos
			allInstrs(sec, func(in ssa.Instruction) {
				name, val := interpFieldStore(in)
				if name != want {
					return
				}
				nSt++
				v := val
				for {
					switch x := v.(type) {
					case *ssa.ChangeInterface:
						v = x.X
						continue
					case *ssa.MakeInterface:
						v = x.X
						continue
					}
					break
				}
				// a load of a Config field
				if u, ok := v.(*ssa.UnOp); ok {
					if f, _ := fieldOfAddr(u.X); f != nil && (f.Name() == "Output" || f.Name() == "Error") {
						return
					}
					if g, ok := u.X.(*ssa.Global); ok && g.Pkg != nil && g.Pkg.Pkg.Path() == "os" {
						return
					}
				}
				// the default: a buffer around os.Stdout
				if call, ok := v.(*ssa.Call); ok {
					if cal := calleeObj(call); cal != nil && cal.Pkg() != nil && cal.Pkg().Path() == "bufio" && len(call.Call.Args) >= 1 {
						a := call.Call.Args[0]
						for {
							if mi, ok := a.(*ssa.MakeInterface); ok {
								a = mi.X
								continue
							}
							break
						}
						if u, ok := a.(*ssa.UnOp); ok {
							if g, ok := u.X.(*ssa.Global); ok && g.Pkg != nil && g.Pkg.Pkg.Path() == "os" {
								return
							}
						}
					}
				}
				bad = v.String()
				badPos = posOr(in.Pos(), token.Pos(1))
			})
			c.check(bad == "" && nSt >= 1, "as-given:"+want, badPos, "p."+want+" is the caller's writer itself, or the default standard stream",
				"setExecuteConfig stores into p."+want+" something other than the caller's writer or the default standard stream ("+bad+"): a buffer the interpreter puts around the caller's writer hides write errors until the final flush, whose error is not reported, so failed output looks like success")
		}
	}
}

// traceInterpField: which interp field does an interface value come from (through type assertions / extracts)?
func traceInterpField(v ssa.Value, depth int) string {
	if depth > 5 || v == nil {
		return ""
	}
	if n := interpFieldLoad(v); n != "" {
		return n
	}
	switch x := v.(type) {
	case *ssa.Extract:
		return traceInterpField(x.Tuple, depth+1)
	case *ssa.TypeAssert:
		return traceInterpField(x.X, depth+1)
	case *ssa.ChangeInterface:
		return traceInterpField(x.X, depth+1)
	case *ssa.MakeInterface:
		return traceInterpField(x.X, depth+1)
	case *ssa.Phi:
		for _, e := range x.Edges {
			if s := traceInterpField(e, depth+1); s != "" {
				return s
			}
		}
	}
	return ""
}

func fieldThroughIface(v ssa.Value) string { return traceInterpField(v, 0) }

// isDoubleCloseErr: the error value is the double-close sentinel: a load of errDoubleClose, or the result of a helper of
// the package whose every non-nil result is that sentinel (`if err := s.markClosed(); err != nil { return err }`).
func isDoubleCloseErr(v ssa.Value, depth int) bool {
	if depth > 3 {
		return false
	}
	switch x := v.(type) {
	case *ssa.UnOp:
		if g, ok := x.X.(*ssa.Global); ok && g.Name() == "errDoubleClose" {
			return true
		}
	case *ssa.Call:
		cal := x.Call.StaticCallee()
		if cal == nil || len(cal.Blocks) == 0 {
			return false
		}
		n := 0
		for _, b := range cal.Blocks {
			if len(b.Instrs) == 0 {
				continue
			}
			ret, ok := b.Instrs[len(b.Instrs)-1].(*ssa.Return)
			if !ok {
				continue
			}
			rr := retResults(ret)
			if len(rr) != 1 {
				return false
			}
			if isNilConst(rr[0]) {
				continue
			}
			if !isDoubleCloseErr(rr[0], depth+1) {
				return false
			}
			n++
		}
		return n > 0
	case *ssa.Phi:
		for _, e := range x.Edges {
			if !isNilConst(e) && !isDoubleCloseErr(e, depth+1) {
				return false
			}
		}
		return true
	}
	return false
}

// posInstr: an instruction reported at another position (the call site that decides, instead of the shared helper).
type posInstr struct {
	ssa.Instruction
	pos token.Pos
}

func (p posInstr) Pos() token.Pos { return p.pos }

// structParamField: v reads field number idx of a struct-typed parameter (directly, or through the local copy go/ssa
// makes of an addressable parameter): the parameter and the field number, else nil.
func structParamField(v ssa.Value) (*ssa.Parameter, int) {
	switch x := v.(type) {
	case *ssa.Field:
		if prm, ok := x.X.(*ssa.Parameter); ok {
			return prm, x.Field
		}
	case *ssa.UnOp:
		if x.Op != token.MUL {
			return nil, 0
		}
		fa, ok := x.X.(*ssa.FieldAddr)
		if !ok {
			return nil, 0
		}
		al, ok := fa.X.(*ssa.Alloc)
		if !ok || al.Referrers() == nil {
			return nil, 0
		}
		var prm *ssa.Parameter
		n := 0
		for _, r := range *al.Referrers() {
			if st, ok := r.(*ssa.Store); ok && st.Addr == ssa.Value(al) {
				n++
				prm, _ = st.Val.(*ssa.Parameter)
			}
		}
		if n == 1 && prm != nil {
			return prm, fa.Field
		}
	}
	return nil, 0
}

// interpFieldAliasOf: every store into interpreter field name (outside nil/zero resets) is the value of one other
// interpreter field, possibly seen through a type assertion or interface conversion (a flusher cached next to the
// writer it was asserted from): that field's name, else "".
func interpFieldAliasOf(c *Ctx, name string) string {
	if name == "" {
		return ""
	}
	key := "interpFieldAliasOf:" + name
	if r, ok := c.memo[key].(string); ok {
		return r
	}
	res, n := "", 0
	bad := false
	for _, fn := range c.srcFuncs("interp") {
		allInstrs(fn, func(in ssa.Instruction) {
			nm, val := interpFieldStore(in)
			if nm != name || bad {
				return
			}
			if isNilConst(val) {
				return
			}
			v := val
			for i := 0; i < 5; i++ {
				switch x := v.(type) {
				case *ssa.Extract:
					v = x.Tuple
					continue
				case *ssa.TypeAssert:
					v = x.X
					continue
				case *ssa.ChangeInterface:
					v = x.X
					continue
				case *ssa.MakeInterface:
					v = x.X
					continue
				}
				break
			}
			src := interpFieldLoad(v)
			if src == "" || (res != "" && src != res) {
				bad = true
				return
			}
			res = src
			n++
		})
	}
	if bad || n == 0 {
		res = ""
	}
	c.memo[key] = res
	return res
}

// closeStatus: the status close() reports is the one the wait returned. The fields that some ExitCode method of the
// package returns are the status fields; a function that waits for a command itself (a direct call of waitExitCode)
// and belongs to a type that carries a status field stores that field after the wait, and every such store carries
// the first result of the wait - on every path, whatever the flush or the close of the pipe returned.
func closeStatus(c *Ctx) {
	codeFields := map[*types.Var]bool{}
	for _, fn := range c.srcFuncs("interp") {
		if fn.Name() != "ExitCode" || fn.Signature.Recv() == nil {
			continue
		}
		allInstrs(fn, func(in ssa.Instruction) {
			if r, ok := in.(*ssa.Return); ok && len(r.Results) == 1 {
				if f, _ := loadedField(r.Results[0]); f != nil {
					codeFields[f] = true
				}
			}
		})
	}
	var hasCodeField func(t types.Type, d int) bool
	hasCodeField = func(t types.Type, d int) bool {
		st, ok := deref(t).Underlying().(*types.Struct)
		if !ok || d > 3 {
			return false
		}
		for i := 0; i < st.NumFields(); i++ {
			if codeFields[st.Field(i)] {
				return true
			}
			if st.Field(i).Embedded() && hasCodeField(st.Field(i).Type(), d+1) {
				return true
			}
		}
		return false
	}
	n := 0
	for _, fn := range c.srcFuncs("interp") {
		fn := fn
		recv := fn.Signature.Recv()
		if recv == nil || !hasCodeField(recv.Type(), 0) {
			continue
		}
		var waits []*ssa.Call
		allInstrs(fn, func(in ssa.Instruction) {
			if call, ok := in.(*ssa.Call); ok {
				if cal := call.Call.StaticCallee(); cal != nil && cal.Name() == "waitExitCode" {
					waits = append(waits, call)
				}
			}
		})
		if len(waits) == 0 {
			continue
		}
		n++
		var fromWait func(v ssa.Value, d int) bool
		fromWait = func(v ssa.Value, d int) bool {
			if d > 4 {
				return false
			}
			switch x := v.(type) {
			case *ssa.Extract:
				if call, ok := x.Tuple.(*ssa.Call); ok && x.Index == 0 {
					for _, w := range waits {
						if call == w {
							return true
						}
					}
				}
			case *ssa.Phi:
				for _, e := range x.Edges {
					if !fromWait(e, d+1) {
						return false
					}
				}
				return len(x.Edges) > 0
			case *ssa.ChangeType:
				return fromWait(x.X, d+1)
			case *ssa.Convert:
				return fromWait(x.X, d+1)
			}
			return false
		}
		badSt, nSt := token.NoPos, 0
		allInstrs(fn, func(in ssa.Instruction) {
			st, ok := in.(*ssa.Store)
			if !ok {
				return
			}
			f, _ := fieldOfAddr(st.Addr)
			if f == nil || !codeFields[f] {
				return
			}
			waited := false
			for _, w := range waits {
				if w.Block() == in.Block() || w.Block().Dominates(in.Block()) {
					waited = true
				}
			}
			if !waited {
				return // before the wait: overwritten, or on the already-closed path
			}
			nSt++
			if !fromWait(st.Val, 0) {
				badSt = posOr(in.Pos(), fn.Pos())
			}
		})
		c.check(badSt == token.NoPos && nSt > 0, "close-status:"+fnKey(fn), posOr(badSt, fn.Pos()),
			"the status kept for close() is the first result of the wait on every path that waited",
			fnKey(fn)+" stores something other than the status the wait returned into the stream's status field after waiting for the command (or never stores it): close() then reports a made-up status - for example -1 whenever the final flush met a closed pipe - instead of the command's exit status")
	}
	c.atLeast("functions that wait for a command and keep its status", n, 1)
}

// configRoleOfField: the interpreter field is assigned Config.Output (role "output") or Config.Error ("errorOutput").
func configRoleOfField(c *Ctx, name string) string {
	role := ""
	for _, fn := range c.srcFuncs("interp") {
		allInstrs(fn, func(in ssa.Instruction) {
			fname, val := interpFieldStore(in)
			if fname != name {
				return
			}
			if f, base := loadedField(val); f != nil && isNamed(deref(base.Type()), modPath+"/interp", "Config") {
				switch f.Name() {
				case "Output":
					role = "output"
				case "Error":
					role = "errorOutput"
				}
			}
		})
	}
	return role
}

// fieldHoldsOwnBuffer: some store to the interpreter field carries a buffered writer built in package interp.
func fieldHoldsOwnBuffer(c *Ctx, name string) token.Pos {
	pos := token.NoPos
	for _, fn := range c.srcFuncs("interp") {
		allInstrs(fn, func(in ssa.Instruction) {
			fname, val := interpFieldStore(in)
			if fname != name {
				return
			}
			v := val
			for d := 0; d < 3; d++ {
				switch x := v.(type) {
				case *ssa.MakeInterface:
					v = x.X
					continue
				case *ssa.ChangeInterface:
					v = x.X
					continue
				}
				break
			}
			if call, ok := v.(*ssa.Call); ok {
				if f := calleeObj(call); f != nil && (funcFullName(f) == "bufio.NewWriterSize" || funcFullName(f) == "bufio.NewWriter") {
					pos = in.Pos()
				}
			}
		})
	}
	return pos
}
