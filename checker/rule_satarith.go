package main

import (
	"go/constant"
	"go/token"
	"go/types"
	"math"
	"sort"

	"golang.org/x/tools/go/ssa"
)

// R-SATARITH (C02): integers that come from AWK numbers saturate at the limits of int
// (floatToInt), so any + - * on them before they have been clamped wraps around, and the
// clamp that follows no longer protects the index or slice built from the result.
//
// An interval analysis over SSA: values returned by floatToInt are [-INF,+INF]; len/cap are
// [0,SMALL]; constants are exact; other integers are assumed SMALL (|v| <= 2^50). Intervals
// are refined along control-flow edges by the comparisons that guard them (the clamp idiom
// `if x > k { x = k }` becomes a phi whose edges carry x<=k resp. the constant) and joined
// at phis; loop-carried values are widened to WIDE (2^60), which is distinct from INF so a
// loop counter is never mistaken for a saturated value. Parameters take the join of the
// arguments at their call sites in package interp. An addition, subtraction or
// multiplication is reported when an operand can still be +INF (-INF) while the other can
// move it further in that direction.

func init() {
	register("R-SATARITH", "saturating integers: every int obtained from an AWK number by floatToInt may be MaxInt or MinInt; by an interval analysis over SSA (edge-sensitive refinement by guarding comparisons, join at phis, widening distinct from saturation, parameters joined over their call sites in package interp) no +, - or * in package interp has an operand that can still be saturated on the side towards which the other operand can move it - such arithmetic wraps around before the clamp that is meant to bound the index or slice", ruleSatArith)
}

const (
	ivSmall = int64(1) << 50
	ivWide  = int64(1) << 60
	ivInf   = int64(math.MaxInt64)
	ivNInf  = int64(math.MinInt64)
)

type ival struct{ lo, hi int64 }

var ivTop = ival{ivNInf, ivInf}
var ivSmallV = ival{-ivSmall, ivSmall}

func (a ival) join(b ival) ival {
	if b.lo < a.lo {
		a.lo = b.lo
	}
	if b.hi > a.hi {
		a.hi = b.hi
	}
	return a
}

func satAdd(a, b int64) int64 {
	if a == ivInf || b == ivInf {
		if a == ivNInf || b == ivNInf {
			return 0
		}
		return ivInf
	}
	if a == ivNInf || b == ivNInf {
		return ivNInf
	}
	s := a + b
	if s > ivWide {
		return ivWide
	}
	if s < -ivWide {
		return -ivWide
	}
	return s
}

func neg(a int64) int64 {
	switch a {
	case ivInf:
		return ivNInf
	case ivNInf:
		return ivInf
	}
	return -a
}

type satFn struct {
	fn     *ssa.Function
	vals   map[ssa.Value]ival
	params []ival
}

type satCtx struct {
	c        *Ctx
	src      *types.Func // floatToInt
	fns      map[*ssa.Function]*satFn
	reported map[string]bool
}

func isIntType(t types.Type) bool {
	b, ok := t.Underlying().(*types.Basic)
	return ok && b.Info()&types.IsInteger != 0
}

// edgeConds: comparisons known to hold when control goes from pred to succ (directly, or because
// pred is reached only through a chain of single-predecessor blocks each entered by one If branch).
type satCond struct {
	cmp  *ssa.BinOp
	sense bool
}

var condsOnEdgeCache = map[[2]*ssa.BasicBlock][]satCond{}

func condsOnEdge(pred, succ *ssa.BasicBlock) []satCond {
	k := [2]*ssa.BasicBlock{pred, succ}
	if v, ok := condsOnEdgeCache[k]; ok {
		return v
	}
	v := condsOnEdgeUncached(pred, succ)
	condsOnEdgeCache[k] = v
	return v
}

func condsOnEdgeUncached(pred, succ *ssa.BasicBlock) []satCond {
	var out []satCond
	add := func(b *ssa.BasicBlock, to *ssa.BasicBlock) {
		if len(b.Instrs) == 0 {
			return
		}
		iff, ok := b.Instrs[len(b.Instrs)-1].(*ssa.If)
		if !ok || b.Succs[0] == b.Succs[1] {
			return
		}
		sense := b.Succs[0] == to
		collectConds(iff.Cond, sense, &out)
	}
	add(pred, succ)
	cur := pred
	for i := 0; i < 8 && len(cur.Preds) == 1; i++ {
		add(cur.Preds[0], cur)
		cur = cur.Preds[0]
	}
	return out
}

// condsAt: comparisons that hold whenever block b executes (dominating If edges).
var condsAtCache = map[*ssa.BasicBlock][]satCond{}

func condsAt(b *ssa.BasicBlock) []satCond {
	if v, ok := condsAtCache[b]; ok {
		return v
	}
	v := condsAtUncached(b)
	condsAtCache[b] = v
	return v
}

func condsAtUncached(b *ssa.BasicBlock) []satCond {
	var out []satCond
	for d := b.Idom(); d != nil; d = d.Idom() {
		if len(d.Instrs) == 0 {
			continue
		}
		iff, ok := d.Instrs[len(d.Instrs)-1].(*ssa.If)
		if !ok || d.Succs[0] == d.Succs[1] {
			continue
		}
		for k := 0; k < 2; k++ {
			if edgeDominates(d, k, b) {
				collectConds(iff.Cond, k == 0, &out)
			}
		}
	}
	return out
}

func collectConds(v ssa.Value, sense bool, out *[]satCond) {
	switch x := v.(type) {
	case *ssa.UnOp:
		if x.Op == token.NOT {
			collectConds(x.X, !sense, out)
		}
	case *ssa.BinOp:
		switch x.Op {
		case token.LSS, token.LEQ, token.GTR, token.GEQ, token.EQL, token.NEQ:
			*out = append(*out, satCond{x, sense})
		}
	}
}

func (sc *satCtx) refine(f *satFn, v ssa.Value, iv ival, conds []satCond) ival {
	for _, cd := range conds {
		var other ssa.Value
		op := cd.cmp.Op
		switch {
		case cd.cmp.X == v:
			other = cd.cmp.Y
		case cd.cmp.Y == v:
			other = cd.cmp.X
			// k OP v  ==  v OP' k
			switch op {
			case token.LSS:
				op = token.GTR
			case token.LEQ:
				op = token.GEQ
			case token.GTR:
				op = token.LSS
			case token.GEQ:
				op = token.LEQ
			}
		default:
			continue
		}
		if !cd.sense {
			switch op {
			case token.LSS:
				op = token.GEQ
			case token.LEQ:
				op = token.GTR
			case token.GTR:
				op = token.LEQ
			case token.GEQ:
				op = token.LSS
			case token.EQL:
				op = token.NEQ
			case token.NEQ:
				op = token.EQL
			}
		}
		k := sc.eval(f, other)
		switch op {
		case token.LSS:
			if k.hi != ivInf && k.hi-1 < iv.hi {
				iv.hi = k.hi - 1
			}
		case token.LEQ:
			if k.hi < iv.hi {
				iv.hi = k.hi
			}
		case token.GTR:
			if k.lo != ivNInf && k.lo+1 > iv.lo {
				iv.lo = k.lo + 1
			}
		case token.GEQ:
			if k.lo > iv.lo {
				iv.lo = k.lo
			}
		case token.EQL:
			if k.hi < iv.hi {
				iv.hi = k.hi
			}
			if k.lo > iv.lo {
				iv.lo = k.lo
			}
		}
	}
	return iv
}

func (sc *satCtx) eval(f *satFn, v ssa.Value) ival {
	if iv, ok := f.vals[v]; ok {
		return iv
	}
	switch x := v.(type) {
	case *ssa.Const:
		if x.Value != nil && x.Value.Kind() == constant.Int {
			if n, ok := constant.Int64Val(x.Value); ok {
				return ival{n, n}
			}
		}
		return ivSmallV
	case *ssa.Parameter:
		for i, p := range f.fn.Params {
			if p == x && i < len(f.params) {
				return f.params[i]
			}
		}
	}
	return ivSmallV
}

// transfer computes the interval of one instruction's value from its operands.
func (sc *satCtx) transfer(f *satFn, in ssa.Instruction) (ival, bool) {
	switch x := in.(type) {
	case *ssa.Call:
		if !isIntType(x.Type()) {
			return ival{}, false
		}
		if cal := x.Call.StaticCallee(); cal != nil && cal.Object() == types.Object(sc.src) {
			return ivTop, true
		}
		if b, ok := x.Call.Value.(*ssa.Builtin); ok && (b.Name() == "len" || b.Name() == "cap") {
			return ival{0, ivSmall}, true
		}
		return ivSmallV, true
	case *ssa.Phi:
		if !isIntType(x.Type()) {
			return ival{}, false
		}
		first := true
		var acc ival
		for i, e := range x.Edges {
			iv := sc.eval(f, e)
			iv = sc.refine(f, e, iv, condsOnEdge(x.Block().Preds[i], x.Block()))
			if first {
				acc, first = iv, false
			} else {
				acc = acc.join(iv)
			}
		}
		return acc, true
	case *ssa.BinOp:
		if !isIntType(x.Type()) {
			return ival{}, false
		}
		a := sc.refine(f, x.X, sc.eval(f, x.X), condsAt(x.Block()))
		b := sc.refine(f, x.Y, sc.eval(f, x.Y), condsAt(x.Block()))
		switch x.Op {
		case token.ADD:
			return ival{satAdd(a.lo, b.lo), satAdd(a.hi, b.hi)}, true
		case token.SUB:
			return ival{satAdd(a.lo, neg(b.hi)), satAdd(a.hi, neg(b.lo))}, true
		case token.MUL:
			if a.lo == ivNInf || a.hi == ivInf || b.lo == ivNInf || b.hi == ivInf {
				return ivTop, true
			}
			return ival{-ivWide, ivWide}, true
		case token.QUO, token.REM:
			return a, true
		}
		return ivSmallV, true
	case *ssa.Convert:
		if isIntType(x.Type()) && isIntType(x.X.Type()) {
			return sc.eval(f, x.X), true
		}
		if isIntType(x.Type()) {
			return ivSmallV, true
		}
	case *ssa.ChangeType:
		if isIntType(x.Type()) {
			return sc.eval(f, x.X), true
		}
	case *ssa.UnOp:
		if isIntType(x.Type()) && x.Op == token.SUB {
			a := sc.eval(f, x.X)
			return ival{neg(a.hi), neg(a.lo)}, true
		}
	}
	return ival{}, false
}

func (sc *satCtx) analyse(f *satFn) {
	f.vals = map[ssa.Value]ival{}
	for iter := 0; iter < 12; iter++ {
		changed := false
		for _, b := range f.fn.Blocks {
			for _, in := range b.Instrs {
				v, isVal := in.(ssa.Value)
				if !isVal {
					continue
				}
				iv, ok := sc.transfer(f, in)
				if !ok {
					continue
				}
				old, had := f.vals[v]
				if had {
					iv = old.join(iv)
					// widening after a few rounds: growing bounds go to WIDE (never to INF)
					if iter >= 4 {
						if iv.lo < old.lo && iv.lo != ivNInf {
							iv.lo = -ivWide
						}
						if iv.hi > old.hi && iv.hi != ivInf {
							iv.hi = ivWide
						}
					}
				}
				if !had || iv != old {
					f.vals[v] = iv
					changed = true
				}
			}
		}
		if !changed {
			break
		}
	}
}

func ruleSatArith(c *Ctx) {
	sp := c.ssaPkg("interp")
	if sp == nil {
		c.undecided("anchor:interp", token.NoPos, "package interp not loaded")
		return
	}
	srcFn, _ := sp.Members["floatToInt"].(*ssa.Function)
	if srcFn == nil {
		c.undecided("anchor:floatToInt", token.NoPos, "interp.floatToInt not found: the saturating conversion the rule starts from is gone")
		return
	}
	sc := &satCtx{c: c, src: srcFn.Object().(*types.Func), fns: map[*ssa.Function]*satFn{}, reported: map[string]bool{}}
	var fns []*ssa.Function
	for _, fn := range c.srcFuncs("interp") {
		if fn == srcFn || len(fn.Blocks) == 0 {
			continue
		}
		fns = append(fns, fn)
		f := &satFn{fn: fn}
		for range fn.Params {
			f.params = append(f.params, ivSmallV)
		}
		sc.fns[fn] = f
	}
	// parameters: join over call sites, three rounds
	sources := 0
	for round := 0; round < 4; round++ {
		for _, fn := range fns {
			sc.analyse(sc.fns[fn])
		}
		changed := false
		for _, fn := range fns {
			f := sc.fns[fn]
			for _, b := range fn.Blocks {
				for _, in := range b.Instrs {
					call, ok := in.(ssa.CallInstruction)
					if !ok {
						continue
					}
					cal := call.Common().StaticCallee()
					if cal == srcFn && round == 0 {
						sources++
					}
					g := sc.fns[cal]
					if g == nil {
						continue
					}
					args := call.Common().Args
					for i, a := range args {
						if i >= len(g.params) || !isIntType(a.Type()) {
							continue
						}
						iv := sc.refine(f, a, sc.eval(f, a), condsAt(b))
						// only saturation is propagated; ordinary magnitudes stay SMALL
						nv := g.params[i]
						if iv.lo == ivNInf {
							nv.lo = ivNInf
						}
						if iv.hi == ivInf {
							nv.hi = ivInf
						}
						if nv != g.params[i] {
							g.params[i] = nv
							changed = true
						}
					}
				}
			}
		}
		if !changed {
			break
		}
	}
	c.atLeast("floatToInt call sites", sources, 4)
	// obligations: every + - * with a possibly saturated operand
	nOps := 0
	var keys []string
	type rep struct {
		pos token.Pos
		bad bool
		msg string
	}
	reps := map[string]rep{}
	for _, fn := range fns {
		f := sc.fns[fn]
		idx := map[string]int{}
		for _, b := range fn.Blocks {
			for _, in := range b.Instrs {
				bo, ok := in.(*ssa.BinOp)
				if !ok || !isIntType(bo.Type()) {
					continue
				}
				if bo.Op != token.ADD && bo.Op != token.SUB && bo.Op != token.MUL {
					continue
				}
				a := sc.refine(f, bo.X, sc.eval(f, bo.X), condsAt(b))
				bb := sc.refine(f, bo.Y, sc.eval(f, bo.Y), condsAt(b))
				sat := a.lo == ivNInf || a.hi == ivInf || bb.lo == ivNInf || bb.hi == ivInf
				if !sat {
					continue
				}
				nOps++
				y := bb
				if bo.Op == token.SUB {
					y = ival{neg(bb.hi), neg(bb.lo)}
				}
				over := false
				switch bo.Op {
				case token.ADD, token.SUB:
					over = (a.hi == ivInf && y.hi > 0) || (y.hi == ivInf && a.hi > 0) || (a.lo == ivNInf && y.lo < 0) || (y.lo == ivNInf && a.lo < 0)
				case token.MUL:
					over = true
				}
				base := "satarith:" + fnKey(fn) + ":" + bo.Op.String()
				idx[base]++
				key := base
				if idx[base] > 1 {
					key = base + "#" + itoa(int64(idx[base]))
				}
				keys = append(keys, key)
				if over {
					reps[key] = rep{bo.Pos(), true, "operands " + ivStr(a) + " " + bo.Op.String() + " " + ivStr(bb) + ": an operand can still be a saturated MaxInt/MinInt (from floatToInt) and the other can move it further, so the result wraps around; a later clamp or bounds test sees the wrapped value"}
				} else {
					reps[key] = rep{bo.Pos(), false, "operands " + ivStr(a) + " " + bo.Op.String() + " " + ivStr(bb) + ": the saturated side cannot be exceeded"}
				}
			}
		}
	}
	sort.Strings(keys)
	for _, k := range keys {
		r := reps[k]
		if r.bad {
			c.bad(k, r.pos, "%s", r.msg)
		} else {
			c.ok(k, r.pos, "%s", r.msg)
		}
	}
	// how the clamped values end up: evidence that the substr operands are bounded where they are sliced
	c.trivial("satarith:summary", token.NoPos, "%d arithmetic operations with a possibly saturated operand examined in %d functions", nOps, len(fns))
}

func ivStr(a ival) string {
	e := func(v int64) string {
		switch {
		case v == ivInf:
			return "+INF"
		case v == ivNInf:
			return "-INF"
		case v >= ivWide:
			return "+wide"
		case v <= -ivWide:
			return "-wide"
		case v >= ivSmall:
			return "+small"
		case v <= -ivSmall:
			return "-small"
		}
		return itoa(v)
	}
	return "[" + e(a.lo) + "," + e(a.hi) + "]"
}
