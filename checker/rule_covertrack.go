package main

import (
	"go/ast"
	"go/token"
	"go/types"
	"strings"
)

// coverTrack2: the COUNTER and POS clauses of R-COVER without assuming which function of package cover does
// what. The tracked-block literal, the counter element and the counter statements are found by their types;
// expressions are normalised across function boundaries (a parameter is replaced by the argument of its one
// call site, a call of a single-return helper by the helper's result), and the mode mapping is decided by
// evaluating the mode test for both modes.

type xrender struct {
	c       *Ctx
	pkg     string
	info    *types.Info
	defs    map[*ast.FuncDecl]map[string]localDef
	callers map[string][]xcall // callee name -> call sites
}

type xcall struct {
	fd   *ast.FuncDecl
	call *ast.CallExpr
}

func newXRender(c *Ctx, pkg string) *xrender {
	x := &xrender{c: c, pkg: pkg, info: c.pkg(pkg).TypesInfo, defs: map[*ast.FuncDecl]map[string]localDef{}, callers: map[string][]xcall{}}
	for _, fd := range c.allFuncDecls(pkg) {
		if fd.Body == nil {
			continue
		}
		fd := fd
		ast.Inspect(fd.Body, func(n ast.Node) bool {
			call, ok := n.(*ast.CallExpr)
			if !ok {
				return true
			}
			var id *ast.Ident
			switch f := call.Fun.(type) {
			case *ast.Ident:
				id = f
			case *ast.SelectorExpr:
				id = f.Sel
			}
			if id == nil {
				return true
			}
			if fn, ok := x.info.Uses[id].(*types.Func); ok && fn.Pkg() == c.pkg(pkg).Types {
				x.callers[fn.Name()] = append(x.callers[fn.Name()], xcall{fd, call})
			}
			return true
		})
	}
	return x
}

func (x *xrender) localDefsOf(fd *ast.FuncDecl) map[string]localDef {
	if d, ok := x.defs[fd]; ok {
		return d
	}
	d := localDefs(fd)
	x.defs[fd] = d
	return d
}

// paramIndex: position of name among fd's parameters, or -1.
func paramIndex(fd *ast.FuncDecl, name string) int {
	i := 0
	for _, f := range fd.Type.Params.List {
		for _, nm := range f.Names {
			if nm.Name == name {
				return i
			}
			i++
		}
	}
	return -1
}

// singleReturn: the result expression of a function whose only return statement is its last statement.
func singleReturn(fd *ast.FuncDecl) ast.Expr {
	if fd == nil || fd.Body == nil || len(fd.Body.List) == 0 {
		return nil
	}
	nRet := 0
	ast.Inspect(fd.Body, func(n ast.Node) bool {
		if _, ok := n.(*ast.FuncLit); ok {
			return false
		}
		if _, ok := n.(*ast.ReturnStmt); ok {
			nRet++
		}
		return true
	})
	last, ok := fd.Body.List[len(fd.Body.List)-1].(*ast.ReturnStmt)
	if !ok || nRet != 1 || len(last.Results) != 1 {
		return nil
	}
	return last.Results[0]
}

func (x *xrender) render(fd *ast.FuncDecl, e ast.Expr, depth int) string {
	if depth > 10 {
		return "?"
	}
	switch v := e.(type) {
	case *ast.Ident:
		if d, ok := x.localDefsOf(fd)[v.Name]; ok {
			s := x.render(fd, d.e, depth+1)
			if d.idx >= 0 {
				return s + "#" + itoa(int64(d.idx))
			}
			return s
		}
		if i := paramIndex(fd, v.Name); i >= 0 {
			// a parameter: the argument at the one call site of this function
			if cs := x.callers[fd.Name.Name]; len(cs) == 1 && i < len(cs[0].call.Args) {
				return x.render(cs[0].fd, cs[0].call.Args[i], depth+1)
			}
			return "param:" + itoa(int64(i))
		}
		// receiver name is normalised
		if fd.Recv != nil && len(fd.Recv.List[0].Names) == 1 && fd.Recv.List[0].Names[0].Name == v.Name {
			return "recv"
		}
		return v.Name
	case *ast.SelectorExpr:
		return x.render(fd, v.X, depth) + "." + v.Sel.Name
	case *ast.CallExpr:
		// a single-return helper of the package: its result, seen from this call
		var id *ast.Ident
		switch f := v.Fun.(type) {
		case *ast.Ident:
			id = f
		case *ast.SelectorExpr:
			id = f.Sel
		}
		if id != nil {
			if fn, ok := x.info.Uses[id].(*types.Func); ok && fn.Pkg() == x.c.pkg(x.pkg).Types {
				name := fn.Name()
				if recv := fn.Type().(*types.Signature).Recv(); recv != nil {
					if nm := named(deref(recv.Type())); nm != nil {
						name = nm.Obj().Name() + "." + name
					}
				}
				if callee := x.c.funcDecl(x.pkg, name); callee != nil && len(x.callers[callee.Name.Name]) == 1 {
					if r := singleReturn(callee); r != nil {
						return x.render(callee, r, depth+1)
					}
				}
			}
		}
		var as []string
		for _, a := range v.Args {
			as = append(as, x.render(fd, a, depth))
		}
		return x.render(fd, v.Fun, depth) + "(" + strings.Join(as, ",") + ")"
	case *ast.IndexExpr:
		return x.render(fd, v.X, depth) + "[" + x.render(fd, v.Index, depth) + "]"
	case *ast.BinaryExpr:
		return "(" + x.render(fd, v.X, depth) + v.Op.String() + x.render(fd, v.Y, depth) + ")"
	case *ast.BasicLit:
		return v.Value
	case *ast.ParenExpr:
		return x.render(fd, v.X, depth)
	case *ast.UnaryExpr:
		return v.Op.String() + x.render(fd, v.X, depth)
	case *ast.CompositeLit:
		var es []string
		for _, el := range v.Elts {
			if kv, ok := el.(*ast.KeyValueExpr); ok {
				es = append(es, exprName(kv.Key)+":"+x.render(fd, kv.Value, depth))
			} else {
				es = append(es, x.render(fd, el, depth))
			}
		}
		return types.ExprString(v.Type) + "{" + strings.Join(es, ",") + "}"
	case *ast.StarExpr:
		return "*" + x.render(fd, v.X, depth)
	}
	return types.ExprString(e)
}

func coverTrack2(c *Ctx, info *types.Info) int {
	n := 0
	x := newXRender(c, "internal/cover")
	// ---- the tracked-block literal: appended to <recv>.trackedBlocks somewhere in the package
	var blockLit *ast.CompositeLit
	var blockFd *ast.FuncDecl
	var appendStmt *ast.AssignStmt
	for _, fd := range c.allFuncDecls("internal/cover") {
		if fd.Body == nil || fd.Recv == nil || len(fd.Recv.List[0].Names) == 0 {
			continue
		}
		recv := fd.Recv.List[0].Names[0].Name
		ast.Inspect(fd.Body, func(nd ast.Node) bool {
			as, ok := nd.(*ast.AssignStmt)
			if !ok || len(as.Lhs) != 1 || !isSel(as.Lhs[0], recv, "trackedBlocks") {
				return true
			}
			if call, ok := as.Rhs[0].(*ast.CallExpr); ok && isIdent(call.Fun, "append") && len(call.Args) == 2 && isSel(call.Args[0], recv, "trackedBlocks") {
				if cl, ok := call.Args[1].(*ast.CompositeLit); ok {
					blockLit, blockFd, appendStmt = cl, fd, as
				}
			}
			return true
		})
	}
	if blockLit == nil {
		c.undecided("anchor:trackedBlocks-append", token.NoPos, "no function of package cover appends a trackedBlock literal to its trackedBlocks")
		return 0
	}
	// the statement list the block is made of: the slice parameter of that function (or of its caller)
	arg := ""
	for _, f := range blockFd.Type.Params.List {
		if _, ok := f.Type.(*ast.ArrayType); ok && len(f.Names) == 1 {
			arg = f.Names[0].Name
		}
	}
	if arg == "" {
		c.undecided("anchor:tracked-stmts", blockFd.Pos(), "the function recording a block has no slice-of-statements parameter")
		return 0
	}
	stmts := x.render(blockFd, &ast.Ident{Name: arg}, 0)
	first := stmts + "[0].StartPos()"
	last := "endPos(" + stmts + "[(len(" + stmts + ")-1)])"
	flStart := "recv.fileReader.FileLine(" + first + ".Line)"
	flEnd := "recv.fileReader.FileLine(" + last + ".Line)"
	want := map[string]string{
		"start":    "lexer.Position{Line:" + flStart + "#1,Column:" + first + ".Column}",
		"end":      "lexer.Position{Line:" + flEnd + "#1,Column:" + last + ".Column}",
		"path":     flStart + "#0",
		"numStmts": "len(" + stmts + ")",
	}
	for _, f := range []string{"start", "end", "path", "numStmts"} {
		got := ""
		if v := litField(blockLit, f); v != nil {
			got = x.render(blockFd, v, 0)
		}
		n++
		c.check(got == want[f], "pos:"+f, blockLit.Pos(), f+" = "+want[f],
			"trackedBlock."+f+" is "+got+", expected "+want[f]+": the reported block does not span first-statement start to last-statement end in the file the start maps to")
	}
	// endPos: statements with a BodyStart field end their block header there; others at EndPos
	if ep := c.funcDecl("internal/cover", "endPos"); ep != nil {
		okAll := true
		cnt := 0
		ast.Inspect(ep.Body, func(nd ast.Node) bool {
			cc, ok := nd.(*ast.CaseClause)
			if !ok {
				return true
			}
			cnt++
			if len(cc.Body) != 1 {
				okAll = false
				return true
			}
			r, ok := cc.Body[0].(*ast.ReturnStmt)
			if !ok || len(r.Results) != 1 {
				okAll = false
				return true
			}
			s := types.ExprString(r.Results[0])
			if cc.List == nil {
				okAll = okAll && strings.HasSuffix(s, ".EndPos()")
			} else {
				okAll = okAll && strings.HasSuffix(s, ".BodyStart")
			}
			return true
		})
		n++
		c.check(okAll && cnt >= 2, "pos:endPos", ep.Pos(), "compound statements end their header block at BodyStart, simple ones at EndPos()",
			"endPos returns something other than the statement's BodyStart / EndPos(): block end positions no longer come from the parser's recorded positions")
	} else {
		c.undecided("anchor:endPos", token.NoPos, "endPos not found")
	}
	// ---- the counter element: &ast.IndexExpr{Array: ArrayName, Index: []ast.Expr{&ast.NumExpr{Value: float64(K)}}}
	var idxLit *ast.CompositeLit
	var idxFd *ast.FuncDecl
	for _, fd := range c.allFuncDecls("internal/cover") {
		if fd.Body == nil {
			continue
		}
		ast.Inspect(fd.Body, func(nd ast.Node) bool {
			cl, ok := nd.(*ast.CompositeLit)
			if ok && strings.HasSuffix(types.ExprString(cl.Type), "IndexExpr") {
				if av := litField(cl, "Array"); av != nil && exprName(av) == "ArrayName" {
					idxLit, idxFd = cl, fd
				}
			}
			return true
		})
	}
	idxOK, idxStr := false, ""
	if idxLit != nil {
		if iv := litField(idxLit, "Index"); iv != nil {
			idxStr = x.render(idxFd, iv, 0)
			idxOK = idxStr == "[]ast.Expr{&ast.NumExpr{Value:float64(len(recv.trackedBlocks))}}"
		}
		// the length is taken after the append: find the len(...trackedBlocks) expression and compare positions
		// within the function that appends
		lenAfter := false
		ast.Inspect(blockFd.Body, func(nd ast.Node) bool {
			if call, ok := nd.(*ast.CallExpr); ok && isIdent(call.Fun, "len") && len(call.Args) == 1 {
				if se, ok := call.Args[0].(*ast.SelectorExpr); ok && se.Sel.Name == "trackedBlocks" && call.Pos() > appendStmt.End() {
					lenAfter = true
				}
			}
			return true
		})
		idxOK = idxOK && lenAfter
	}
	n++
	c.check(idxOK, "counter:index", posOfLit(idxLit), "counter element is ArrayName[len(trackedBlocks)] taken after the append (1-based)",
		"the counter's element is not ArrayName[len(trackedBlocks)] evaluated after the block was appended ("+idxStr+"): counters and blocks are paired off by one or share an element")
	// WriteProfile reads dataInts[i+1] in a range over trackedBlocks
	if wp := c.funcDecl("internal/cover", "Cover.WriteProfile"); wp != nil {
		wrecv := wp.Recv.List[0].Names[0].Name
		ok := false
		ast.Inspect(wp.Body, func(nd ast.Node) bool {
			r, isR := nd.(*ast.RangeStmt)
			if !isR || !isSel(r.X, wrecv, "trackedBlocks") || r.Key == nil {
				return true
			}
			k := exprName(r.Key)
			v := exprName(r.Value)
			uses, good := 0, 0
			ast.Inspect(r.Body, func(m ast.Node) bool {
				ix, isIx := m.(*ast.IndexExpr)
				if !isIx {
					return true
				}
				if t := info.TypeOf(ix.X); t != nil {
					if _, isMap := t.Underlying().(*types.Map); isMap {
						uses++
						if b, isB := ix.Index.(*ast.BinaryExpr); isB && b.Op == token.ADD && ((isIdent(b.X, k) && isLit(b.Y, "1")) || (isIdent(b.Y, k) && isLit(b.X, "1"))) {
							good++
						}
					}
				}
				return true
			})
			fromV := 0
			ast.Inspect(r.Body, func(m ast.Node) bool {
				if s, isS := m.(*ast.SelectorExpr); isS && isIdent(s.X, v) {
					fromV++
				}
				return true
			})
			ok = uses == 1 && good == 1 && fromV >= 6
			return false
		})
		n++
		c.check(ok, "counter:read", wp.Pos(), "the i-th block is written with data[i+1] and its own position fields",
			"WriteProfile does not pair the i-th tracked block with counter element i+1: counts are attributed to the wrong block")
	} else {
		c.undecided("anchor:WriteProfile", token.NoPos, "Cover.WriteProfile not found")
	}
	// ---- mode mapping: in the function building the counter statement, evaluate the mode test for both modes
	if idxFd != nil {
		modes := map[string]int64{}
		for _, nm := range []string{"ModeCount", "ModeSet"} {
			if k, ok := c.pkg("internal/cover").Types.Scope().Lookup(nm).(*types.Const); ok {
				if v := constToCV(k.Val()); v.k == cvInt {
					modes[nm] = v.i
				}
			}
		}
		file := fileOf(c, "internal/cover", idxFd)
		// the returns of that function that build an ExprStmt
		type ret struct {
			kind  string // incr / assign1 / other
			conds []pathCond
		}
		var rets []ret
		ast.Inspect(idxFd.Body, func(nd ast.Node) bool {
			r, ok := nd.(*ast.ReturnStmt)
			if !ok || len(r.Results) != 1 {
				return true
			}
			s := x.render(idxFd, r.Results[0], 0)
			elem := x.render(idxFd, &ast.UnaryExpr{Op: token.AND, X: idxLit}, 0)
			kind := "other:" + s
			switch s {
			case "&ast.ExprStmt{Expr:&ast.IncrExpr{Expr:" + elem + ",Op:lexer.INCR}}",
				"&ast.ExprStmt{Expr:&ast.IncrExpr{Expr:" + elem + ",Op:lexer.INCR,Pre:false}}":
				kind = "incr"
			case "&ast.ExprStmt{Expr:&ast.AssignExpr{Left:" + elem + ",Right:&ast.NumExpr{Value:1}}}":
				kind = "assign1"
			}
			rets = append(rets, ret{kind, pathConds(file, r)})
			return true
		})
		// which name holds the mode in that function: a parameter of type Mode, or <recv>.mode
		modeKeys := []string{}
		for _, f := range idxFd.Type.Params.List {
			if t := info.TypeOf(f.Type); t != nil && isNamed(t, modPath+"/internal/cover", "Mode") {
				for _, nm := range f.Names {
					modeKeys = append(modeKeys, nm.Name)
				}
			}
		}
		if idxFd.Recv != nil && len(idxFd.Recv.List[0].Names) == 1 {
			modeKeys = append(modeKeys, idxFd.Recv.List[0].Names[0].Name+".mode")
		}
		pick := func(mode int64) string {
			env := &ceEnv{info: info, vals: map[string]cv{}, alias: map[string]string{}}
			for _, k := range modeKeys {
				env.vals[k] = cvI(mode)
			}
			// returns are tried in source order: the first whose enclosing conditions hold is taken; a return
			// without conditions is the fall-through
			for _, r := range rets {
				if env.holds(r.conds) == 1 {
					return r.kind
				}
			}
			return "none"
		}
		gotCount, gotSet := pick(modes["ModeCount"]), pick(modes["ModeSet"])
		n += 2
		c.check(gotCount == "incr", "counter:count-mode", idxFd.Pos(), "count mode emits ArrayName[i]++",
			"in count mode the counter statement is not a post-increment of the block's element ("+gotCount+"): counts do not equal the number of executions")
		c.check(gotSet == "assign1", "counter:set-mode", idxFd.Pos(), "set mode emits ArrayName[i] = 1",
			"in set mode the counter statement is not an assignment of 1 to the block's element ("+gotSet+")")
	}
	return n
}

func posOfLit(cl *ast.CompositeLit) token.Pos {
	if cl == nil {
		return token.NoPos
	}
	return cl.Pos()
}
