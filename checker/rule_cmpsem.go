package main

import (
	"go/constant"
	"go/token"
	"go/types"
	"sort"
	"strings"

	"golang.org/x/tools/go/ssa"
)

// Semantic side of R-CMP: what a comparison handler of the VM computes, and which jump opcode the compiler
// picks, are decided by evaluating the SSA form under every scenario of a finite domain (ssainterp.go):
//
//   - a handler is evaluated for the 2 x 2 x 3 x 4 combinations of (left is a true string, right is a true
//     string, string order lt/eq/gt, numeric order lt/eq/gt/unordered); the truth table it yields is compared
//     with the six AWK comparison predicates. Helpers the handler calls are entered, negations and swapped
//     operands fold into the table, so the shape of the handler does not matter.
//   - compiler.condition is evaluated for each comparison token and both polarities; the opcode constants its
//     paths return are collected.

type cmpScenario struct {
	lStr, rStr bool
	sOut, nOut string
}

var cmpOps = []string{"==", "!=", "<", "<=", ">", ">="}

func cmpApply(op, out string) bool {
	for _, o := range outcomeSets[op] {
		if o == out {
			return true
		}
	}
	return false
}

func converseOut(out string) string {
	switch out {
	case "lt":
		return "gt"
	case "gt":
		return "lt"
	}
	return out
}

func tokenOpText(op token.Token) string {
	switch op {
	case token.EQL:
		return "=="
	case token.NEQ:
		return "!="
	case token.LSS:
		return "<"
	case token.LEQ:
		return "<="
	case token.GTR:
		return ">"
	case token.GEQ:
		return ">="
	}
	return ""
}

type cmpSem struct {
	c        *Ctx
	exec     *ssa.Function
	ipkg     *ssa.Package
	valueT   types.Type
	opcodeT  types.Type
	entry    map[int64]*ssa.BasicBlock // opcode value -> first block of its handler
	opVal    map[int64]ssa.Value       // opcode value -> the dispatched value compared with it (a clause shared by several opcodes may look at it again)
	cache    map[string]*cmpFacts
	tables   map[string]map[cmpScenario]bool
}

func newCmpSem(c *Ctx) *cmpSem {
	if m, ok := c.memo["cmpsem"].(*cmpSem); ok {
		return m
	}
	m := &cmpSem{c: c, exec: c.ssaFunc("interp", "interp.execute"), ipkg: c.ssaPkg("interp"), entry: map[int64]*ssa.BasicBlock{}, opVal: map[int64]ssa.Value{}, cache: map[string]*cmpFacts{}, tables: map[string]map[cmpScenario]bool{}}
	c.memo["cmpsem"] = m
	if nt, _ := c.structType("interp", "value"); nt != nil {
		m.valueT = nt
	}
	if cp := c.pkg("internal/compiler"); cp != nil {
		if o := cp.Types.Scope().Lookup("Opcode"); o != nil {
			m.opcodeT = o.Type()
		}
	}
	if m.exec == nil || m.valueT == nil || m.opcodeT == nil {
		return m
	}
	// the dispatch: blocks ending in `if op == K goto handler`
	for _, b := range m.exec.Blocks {
		if len(b.Instrs) == 0 {
			continue
		}
		iff, ok := b.Instrs[len(b.Instrs)-1].(*ssa.If)
		if !ok {
			continue
		}
		bo, ok := iff.Cond.(*ssa.BinOp)
		if !ok || bo.Op != token.EQL || !types.Identical(bo.X.Type(), m.opcodeT) {
			continue
		}
		k, ok := bo.Y.(*ssa.Const)
		if !ok || k.Value == nil {
			continue
		}
		if v, ok := constant.Int64Val(k.Value); ok {
			if _, dup := m.entry[v]; !dup {
				m.entry[v] = b.Succs[0]
				m.opVal[v] = bo.X
			}
		}
	}
	return m
}

func (m *cmpSem) isValue(t types.Type) bool { return types.Identical(t, m.valueT) }

// offsetAdd: the block advances ip by a bytecode operand (ip += int(offset)).
func (m *cmpSem) offsetAdd(b *ssa.BasicBlock) bool {
	for _, in := range b.Instrs {
		bo, ok := in.(*ssa.BinOp)
		if !ok || bo.Op != token.ADD {
			continue
		}
		for _, side := range []ssa.Value{bo.X, bo.Y} {
			if cv, ok := side.(*ssa.Convert); ok && types.Identical(cv.X.Type(), m.opcodeT) {
				return true
			}
		}
	}
	return false
}

// table: the handler's result per scenario; for a jump handler "result" is "the jump is taken".
func (m *cmpSem) table(vm *vmModel, op string) (map[cmpScenario]bool, []string) {
	if t, ok := m.tables[op]; ok {
		return t, nil
	}
	var problems []string
	ov, ok := vm.opVals[op]
	blk := m.entry[ov]
	if !ok || blk == nil {
		return nil, []string{"no handler block found for opcode " + op}
	}
	tab := map[cmpScenario]bool{}
	for _, lStr := range []bool{false, true} {
		for _, rStr := range []bool{false, true} {
			for _, sOut := range []string{"lt", "eq", "gt"} {
				for _, nOut := range []string{"lt", "eq", "gt", "un"} {
					sc := cmpScenario{lStr, rStr, sOut, nOut}
					e := &sengine{pkg: m.ipkg}
					e.call = func(p *spath, fr *sframe, call *ssa.Call, callee *ssa.Function, args []iv) (iv, callAction) {
						if callee == nil {
							return iv{}, callDefault
						}
						sig := callee.Signature
						res := sig.Results()
						np := sig.Params().Len()
						recvT := types.Type(nil)
						if sig.Recv() != nil {
							recvT = sig.Recv().Type()
						}
						switch {
						case recvT != nil && isInterp(recvT) && np == 0 && res.Len() == 2 && m.isValue(res.At(0).Type()) && m.isValue(res.At(1).Type()):
							// a two-value stack helper: (left, right) in push order (R-STACK / R-SIBLING decide the helpers)
							return ivTuple(ivSym("valL"), ivSym("valR")), callHandled
						case recvT != nil && isInterp(recvT) && np == 0 && res.Len() == 1 && m.isValue(res.At(0).Type()):
							// single pops: the right operand comes off first
							p.notes["pop"]++
							if p.notes["pop"] == 1 {
								return ivSym("valR"), callHandled
							}
							return ivSym("valL"), callHandled
						case recvT != nil && m.isValue(recvT) && np == 0 && res.Len() == 2 && len(args) == 1 && args[0].k == 's':
							if b, ok := res.At(1).Type().Underlying().(*types.Basic); ok && b.Kind() == types.Bool {
								switch args[0].s {
								case "valL":
									return ivTuple(ivSym("numL"), ivBool(sc.lStr)), callHandled
								case "valR":
									return ivTuple(ivSym("numR"), ivBool(sc.rStr)), callHandled
								}
							}
						case recvT != nil && isInterp(recvT) && np == 1 && m.isValue(sig.Params().At(0).Type()) && res.Len() == 1 && len(args) == 2 && args[1].k == 's':
							if b, ok := res.At(0).Type().Underlying().(*types.Basic); ok && b.Kind() == types.String {
								switch args[1].s {
								case "valL":
									return ivSym("strL"), callHandled
								case "valR":
									return ivSym("strR"), callHandled
								}
							}
						case recvT != nil && m.isValue(recvT) && np == 0 && res.Len() == 1 && len(args) == 1 && args[0].k == 's':
							if b, ok := res.At(0).Type().Underlying().(*types.Basic); ok && b.Info()&types.IsFloat != 0 {
								switch args[0].s {
								case "valL":
									return ivSym("numL"), callHandled
								case "valR":
									return ivSym("numR"), callHandled
								}
							}
						case recvT == nil && np == 1 && res.Len() == 1 && m.isValue(res.At(0).Type()):
							// boolean(b): the handler's result
							if b, ok := sig.Params().At(0).Type().Underlying().(*types.Basic); ok && b.Kind() == types.Bool && len(args) == 1 {
								return args[0], callStop
							}
						}
						return iv{}, callDefault
					}
					e.enter = func(callee *ssa.Function, args []iv) bool {
						for _, a := range args {
							if a.k == 's' {
								return true // a helper that is handed an operand
							}
						}
						return false
					}
					e.binop = func(op token.Token, a, b iv) (iv, bool) {
						text := tokenOpText(op)
						if text == "" || a.k != 's' || b.k != 's' {
							return iv{}, false
						}
						switch {
						case a.s == "strL" && b.s == "strR":
							return ivBool(cmpApply(text, sc.sOut)), true
						case a.s == "strR" && b.s == "strL":
							return ivBool(cmpApply(text, converseOut(sc.sOut))), true
						case a.s == "numL" && b.s == "numR":
							return ivBool(cmpApply(text, sc.nOut)), true
						case a.s == "numR" && b.s == "numL":
							return ivBool(cmpApply(text, converseOut(sc.nOut))), true
						}
						return iv{}, false
					}
					e.onIf = func(p *spath, fr *sframe, x *ssa.If, cond iv) (bool, iv, string) {
						if fr != p.stack[0] {
							return false, iv{}, ""
						}
						b := x.Block()
						t, f := m.offsetAdd(b.Succs[0]), m.offsetAdd(b.Succs[1])
						if t == f {
							return false, iv{}, ""
						}
						if cond.k != 'b' {
							return true, iv{}, "jump"
						}
						if t {
							return true, ivBool(cond.b), "jump"
						}
						return true, ivBool(!cond.b), "jump"
					}
					e.ctx = m.c
					var preset map[ssa.Value]iv
					if ovv := m.opVal[ov]; ovv != nil {
						preset = map[ssa.Value]iv{ovv: ivInt(ov)}
					}
					e.startAt(m.exec, blk, preset)
					var results []bool
					bad := ""
					for _, o := range e.outcomes {
						switch {
						case o.stopped && o.stopVal.k == 'b':
							results = append(results, o.stopVal.b)
						case o.stopped:
							bad = "the result is not decided by the operands' string/number comparison"
						case o.panicked:
						default:
							bad = "a path leaves the handler without producing a comparison result"
						}
					}
					if len(e.problems) > 0 {
						bad = strings.Join(e.problems, "; ")
					}
					if bad == "" && len(results) == 0 {
						bad = "no comparison result found (boolean(...) for a value, a conditional ip += offset for a jump)"
					}
					if bad == "" {
						for _, r := range results[1:] {
							if r != results[0] {
								bad = "the result depends on something other than the operands' order"
							}
						}
					}
					if bad != "" {
						if len(problems) < 2 {
							problems = append(problems, bad)
						}
						continue
					}
					tab[sc] = results[0]
				}
			}
		}
	}
	if len(problems) > 0 {
		return nil, problems
	}
	m.tables[op] = tab
	return tab, nil
}

// facts: the table expressed as (operator on strings, operator on numbers), with problems when it is not one
// of the six comparison predicates selected by `either operand is a true string`.
func (m *cmpSem) facts(vm *vmModel, op string) *cmpFacts {
	if f, ok := m.cache[op]; ok {
		return f
	}
	f := &cmpFacts{}
	m.cache[op] = f
	tab, problems := m.table(vm, op)
	if len(problems) > 0 {
		f.problems = problems
		return f
	}
	match := func(str bool) string {
		for _, cand := range cmpOps {
			ok := true
			for sc, got := range tab {
				if (sc.lStr || sc.rStr) != str {
					continue
				}
				want := cmpApply(cand, sc.nOut)
				if str {
					want = cmpApply(cand, sc.sOut)
				}
				if got != want {
					ok = false
					break
				}
			}
			if ok {
				return cand
			}
		}
		return ""
	}
	f.strOp, f.numOp = match(true), match(false)
	f.selector = true
	f.order = "lr"
	if f.strOp == "" {
		f.problems = append(f.problems, "when either operand is a true string the result is not one of == != < <= > >= applied to the operands' string forms in (left, right) order")
	}
	if f.numOp == "" {
		f.problems = append(f.problems, "when neither operand is a true string the result is not one of == != < <= > >= applied to the operands' numbers in (left, right) order")
	}
	return f
}

// conditionDecisions: for each comparison token and polarity, the opcodes compiler.condition can return
// ("?" for a value that is not a constant).
func conditionDecisions(c *Ctx, vm *vmModel, tokens map[string]int64) (map[string][]string, string) {
	fn := c.ssaFunc("internal/compiler", "compiler.condition")
	cpkg := c.ssaPkg("internal/compiler")
	if fn == nil || cpkg == nil {
		return nil, "compiler.condition not found"
	}
	var invertP, exprP *ssa.Parameter
	for _, p := range fn.Params {
		if b, ok := p.Type().Underlying().(*types.Basic); ok && b.Kind() == types.Bool {
			invertP = p
		}
		if _, ok := p.Type().Underlying().(*types.Interface); ok {
			exprP = p
		}
	}
	if invertP == nil || exprP == nil {
		return nil, "compiler.condition has no (expression, polarity) parameters"
	}
	opName := map[int64]string{}
	for n, v := range vm.opVals {
		opName[v] = n
	}
	out := map[string][]string{}
	var tks []string
	for tk := range tokens {
		tks = append(tks, tk)
	}
	sort.Strings(tks)
	for _, tk := range tks {
		tv := tokens[tk]
		for _, inv := range []bool{false, true} {
			e := &sengine{pkg: cpkg}
			e.param = func(f *ssa.Function, p *ssa.Parameter) (iv, bool) {
				switch p {
				case invertP:
					return ivBool(inv), true
				case exprP:
					return ivSym("expr"), true
				}
				return iv{}, false
			}
			e.typeAssert = func(fr *sframe, x *ssa.TypeAssert, v iv) (iv, bool) {
				if v.k != 's' || v.s != "expr" {
					return iv{}, false
				}
				isBin := false
				if nm := named(deref(x.AssertedType)); nm != nil && nm.Obj().Name() == "BinaryExpr" {
					isBin = true
				}
				val := iv{}
				if isBin {
					val = ivSym("bin")
				}
				if x.CommaOk {
					return ivTuple(val, ivBool(isBin)), true
				}
				return val, isBin
			}
			e.load = func(p *spath, fr *sframe, addr iv, in *ssa.UnOp) (iv, bool) {
				if addr.k == 'p' && addr.s == "bin.Op" {
					return ivInt(tv), true
				}
				return iv{}, false
			}
			e.enter = func(callee *ssa.Function, args []iv) bool {
				// closures and plain functions (choice of opcode); methods of the compiler emit code and are not entered
				return callee.Signature.Recv() == nil
			}
			e.startAt(fn, fn.Blocks[0], nil)
			set := map[string]bool{}
			for _, o := range e.outcomes {
				if o.panicked {
					continue
				}
				if o.ret.k == 'i' {
					if n, ok := opName[o.ret.i]; ok {
						set[n] = true
						continue
					}
				}
				set["?"] = true
			}
			if len(e.problems) > 0 {
				set["?"] = true
			}
			key := tk + "/normal"
			if inv {
				key = tk + "/inverted"
			}
			for n := range set {
				out[key] = append(out[key], n)
			}
			sort.Strings(out[key])
		}
	}
	return out, ""
}
