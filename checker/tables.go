package main

// Package-level lookup tables: a variable declared with a composite-literal initialiser and never written afterwards
// is a constant of the program, so the evaluators may read its fields and entries like any other constant.

import (
	"go/ast"
	"go/token"
	"go/types"

	"golang.org/x/tools/go/packages"
)

// immutableVarInit returns the initialiser of the package-level variable o of pkg when nothing in the package can
// change it after initialisation: it is never assigned (whole, field or element), never incremented, its address is
// never taken, no pointer-receiver method is called on it and, for maps and slices, it is never handed out as a
// value (which would let the holder write through the alias). nil otherwise.
func (c *Ctx) immutableVarInit(pkg *packages.Package, o types.Object) ast.Expr {
	v, ok := o.(*types.Var)
	if !ok || pkg == nil || v.Pkg() != pkg.Types || v.Parent() != pkg.Types.Scope() {
		return nil
	}
	key := "immutableVarInit:" + pkg.PkgPath + "." + v.Name()
	if e, ok := c.memo[key]; ok {
		x, _ := e.(ast.Expr)
		return x
	}
	c.memo[key] = nil
	var init ast.Expr
	for _, f := range pkg.Syntax {
		for _, d := range f.Decls {
			gd, ok := d.(*ast.GenDecl)
			if !ok || gd.Tok != token.VAR {
				continue
			}
			for _, sp := range gd.Specs {
				vs := sp.(*ast.ValueSpec)
				for i, nm := range vs.Names {
					if pkg.TypesInfo.Defs[nm] == o && len(vs.Values) == len(vs.Names) {
						init = vs.Values[i]
					}
				}
			}
		}
	}
	if init == nil {
		return nil
	}
	refType := false
	switch v.Type().Underlying().(type) {
	case *types.Map, *types.Slice, *types.Pointer, *types.Chan:
		refType = true
	}
	info := pkg.TypesInfo
	rootIs := func(e ast.Expr) bool {
		for {
			switch x := e.(type) {
			case *ast.ParenExpr:
				e = x.X
			case *ast.SelectorExpr:
				e = x.X
			case *ast.IndexExpr:
				e = x.X
			case *ast.StarExpr:
				e = x.X
			case *ast.SliceExpr:
				e = x.X
			case *ast.Ident:
				return info.Uses[x] == o
			default:
				return false
			}
		}
	}
	mutable := false
	for _, f := range pkg.Syntax {
		var stack []ast.Node
		ast.Inspect(f, func(n ast.Node) bool {
			if n == nil {
				stack = stack[:len(stack)-1]
				return true
			}
			stack = append(stack, n)
			switch x := n.(type) {
			case *ast.AssignStmt:
				for _, l := range x.Lhs {
					if rootIs(l) {
						mutable = true
					}
				}
			case *ast.IncDecStmt:
				if rootIs(x.X) {
					mutable = true
				}
			case *ast.UnaryExpr:
				if x.Op == token.AND && rootIs(x.X) {
					mutable = true
				}
			case *ast.RangeStmt:
				if (x.Key != nil && rootIs(x.Key)) || (x.Value != nil && rootIs(x.Value)) {
					mutable = true
				}
			case *ast.CallExpr:
				if se, ok := x.Fun.(*ast.SelectorExpr); ok && rootIs(se.X) {
					if sel := info.Selections[se]; sel != nil && sel.Kind() == types.MethodVal {
						if sig, ok := sel.Obj().Type().(*types.Signature); ok && sig.Recv() != nil {
							if _, isPtr := sig.Recv().Type().(*types.Pointer); isPtr {
								mutable = true
							}
						}
					}
				}
			case *ast.Ident:
				if refType && info.Uses[x] == o && len(stack) >= 2 {
					// a bare use of a map or slice: fine as the operand of an index expression, of len/cap, or of range
					switch p := stack[len(stack)-2].(type) {
					case *ast.IndexExpr:
						if p.X != ast.Expr(x) {
							mutable = true
						}
					case *ast.RangeStmt:
						if p.X != ast.Expr(x) {
							mutable = true
						}
					case *ast.CallExpr:
						if id, ok := p.Fun.(*ast.Ident); !ok || (id.Name != "len" && id.Name != "cap") {
							mutable = true
						} else if _, isB := info.Uses[id].(*types.Builtin); !isB {
							mutable = true
						}
					default:
						mutable = true
					}
				}
			}
			return true
		})
	}
	if mutable {
		return nil
	}
	c.memo[key] = init
	return init
}
