package main

// Package-level lookup tables: a variable declared with a composite-literal initialiser and never written afterwards
// is a constant of the program, so the evaluators may read its fields and entries like any other constant.

import (
	"go/ast"
	"go/constant"
	"strconv"
	"go/token"
	"go/types"

	"golang.org/x/tools/go/packages"
	"golang.org/x/tools/go/ssa"
)

// immutableVarInit returns the initialiser of the package-level variable o of pkg when nothing in the package can
// change it after initialisation: it is never assigned (whole, field or element), never incremented, its address is
// never taken, no pointer-receiver method is called on it and, for maps and slices, it is never handed out as a
// value (which would let the holder write through the alias). nil otherwise.
func (c *Ctx) immutableVarInit(pkg *packages.Package, o types.Object) ast.Expr {
	v, ok := o.(*types.Var)
	if !ok || pkg == nil || v.Pkg() != pkg.Types || v.Parent() != pkg.Types.Scope() {
		return nil
	}
	key := "immutableVarInit:" + pkg.PkgPath + "." + v.Name()
	if e, ok := c.memo[key]; ok {
		x, _ := e.(ast.Expr)
		return x
	}
	c.memo[key] = nil
	var init ast.Expr
	for _, f := range pkg.Syntax {
		for _, d := range f.Decls {
			gd, ok := d.(*ast.GenDecl)
			if !ok || gd.Tok != token.VAR {
				continue
			}
			for _, sp := range gd.Specs {
				vs := sp.(*ast.ValueSpec)
				for i, nm := range vs.Names {
					if pkg.TypesInfo.Defs[nm] == o && len(vs.Values) == len(vs.Names) {
						init = vs.Values[i]
					}
				}
			}
		}
	}
	if init == nil {
		return nil
	}
	refType := false
	switch v.Type().Underlying().(type) {
	case *types.Map, *types.Slice, *types.Pointer, *types.Chan:
		refType = true
	}
	info := pkg.TypesInfo
	rootIs := func(e ast.Expr) bool {
		for {
			switch x := e.(type) {
			case *ast.ParenExpr:
				e = x.X
			case *ast.SelectorExpr:
				e = x.X
			case *ast.IndexExpr:
				e = x.X
			case *ast.StarExpr:
				e = x.X
			case *ast.SliceExpr:
				e = x.X
			case *ast.Ident:
				return info.Uses[x] == o
			default:
				return false
			}
		}
	}
	mutable := false
	for _, f := range pkg.Syntax {
		var stack []ast.Node
		ast.Inspect(f, func(n ast.Node) bool {
			if n == nil {
				stack = stack[:len(stack)-1]
				return true
			}
			stack = append(stack, n)
			switch x := n.(type) {
			case *ast.AssignStmt:
				for _, l := range x.Lhs {
					if rootIs(l) {
						mutable = true
					}
				}
			case *ast.IncDecStmt:
				if rootIs(x.X) {
					mutable = true
				}
			case *ast.UnaryExpr:
				if x.Op == token.AND && rootIs(x.X) {
					mutable = true
				}
			case *ast.RangeStmt:
				if (x.Key != nil && rootIs(x.Key)) || (x.Value != nil && rootIs(x.Value)) {
					mutable = true
				}
			case *ast.CallExpr:
				if se, ok := x.Fun.(*ast.SelectorExpr); ok && rootIs(se.X) {
					if sel := info.Selections[se]; sel != nil && sel.Kind() == types.MethodVal {
						if sig, ok := sel.Obj().Type().(*types.Signature); ok && sig.Recv() != nil {
							if _, isPtr := sig.Recv().Type().(*types.Pointer); isPtr {
								mutable = true
							}
						}
					}
				}
			case *ast.Ident:
				if refType && info.Uses[x] == o && len(stack) >= 2 {
					// a bare use of a map or slice: fine as the operand of an index expression, of len/cap, or of range
					switch p := stack[len(stack)-2].(type) {
					case *ast.IndexExpr:
						if p.X != ast.Expr(x) {
							mutable = true
						}
					case *ast.RangeStmt:
						if p.X != ast.Expr(x) {
							mutable = true
						}
					case *ast.CallExpr:
						if id, ok := p.Fun.(*ast.Ident); !ok || (id.Name != "len" && id.Name != "cap") {
							mutable = true
						} else if _, isB := info.Uses[id].(*types.Builtin); !isB {
							mutable = true
						}
					default:
						mutable = true
					}
				}
			}
			return true
		})
	}
	if mutable {
		return nil
	}
	c.memo[key] = init
	return init
}

// pkgOfTypes: the loaded package with the given types.Package.
func (c *Ctx) pkgOfTypes(tp *types.Package) *packages.Package {
	if tp == nil {
		return nil
	}
	for _, p := range c.Pkgs {
		if p.Types == tp {
			return p
		}
	}
	return nil
}

type constTable struct {
	ints   map[int64]int64  // map with constant integer keys and values
	fields map[string]int64 // struct with constant integer fields
	strs   map[int64]string // map with constant integer keys and string values
	elems  []int64          // array or slice of constant integers (indexed by position or by constant key)
	isMap  bool
}

// constTableOf: the contents of a package-level variable that is never written after its initialisation
// (immutableVarInit) and whose initialiser is a composite literal of constants. nil when it is not such a table.
func (c *Ctx) constTableOf(o types.Object) *constTable {
	if o == nil || o.Pkg() == nil {
		return nil
	}
	if _, isVar := o.(*types.Var); !isVar {
		return nil
	}
	key := "constTable:" + o.Pkg().Path() + "." + o.Name()
	if t, ok := c.memo[key]; ok {
		ct, _ := t.(*constTable)
		return ct
	}
	c.memo[key] = (*constTable)(nil)
	pkg := c.pkgOfTypes(o.Pkg())
	if pkg == nil {
		return nil
	}
	init := c.immutableVarInit(pkg, o)
	cl, ok := init.(*ast.CompositeLit)
	if !ok {
		return nil
	}
	info := pkg.TypesInfo
	t := &constTable{ints: map[int64]int64{}, fields: map[string]int64{}, strs: map[int64]string{}}
	switch u := o.Type().Underlying().(type) {
	case *types.Map:
		t.isMap = true
		for _, el := range cl.Elts {
			kv, ok := el.(*ast.KeyValueExpr)
			if !ok {
				return nil
			}
			k, ok := constInt(info, kv.Key)
			if !ok {
				return nil
			}
			if v, ok := constInt(info, kv.Value); ok {
				t.ints[k] = v
			} else if tv, ok := info.Types[kv.Value]; ok && tv.Value != nil && tv.Value.Kind().String() == "String" {
				t.strs[k] = constantStringVal(tv)
			} else {
				return nil
			}
		}
	case *types.Struct:
		for i, el := range cl.Elts {
			name, val := "", el
			if kv, ok := el.(*ast.KeyValueExpr); ok {
				if id, ok := kv.Key.(*ast.Ident); ok {
					name = id.Name
				}
				val = kv.Value
			} else if i < u.NumFields() {
				name = u.Field(i).Name()
			}
			if v, ok := constInt(info, val); ok && name != "" {
				t.fields[name] = v
			}
		}
		for i := 0; i < u.NumFields(); i++ {
			if _, ok := t.fields[u.Field(i).Name()]; !ok {
				if b, ok := u.Field(i).Type().Underlying().(*types.Basic); ok && b.Info()&types.IsInteger != 0 {
					explicit := false
					for _, el := range cl.Elts {
						if kv, ok := el.(*ast.KeyValueExpr); ok {
							if id, ok := kv.Key.(*ast.Ident); ok && id.Name == u.Field(i).Name() {
								explicit = true
							}
						}
					}
					if !explicit {
						t.fields[u.Field(i).Name()] = 0
					}
				}
			}
		}
	case *types.Array, *types.Slice:
		idx := int64(0)
		for _, el := range cl.Elts {
			val := el
			if kv, ok := el.(*ast.KeyValueExpr); ok {
				k, ok := constInt(info, kv.Key)
				if !ok {
					return nil
				}
				idx = k
				val = kv.Value
			}
			v, ok := constInt(info, val)
			if !ok {
				return nil
			}
			for int64(len(t.elems)) <= idx {
				t.elems = append(t.elems, 0)
			}
			t.elems[idx] = v
			idx++
		}
	default:
		return nil
	}
	c.memo[key] = t
	return t
}

func constantStringVal(tv types.TypeAndValue) string {
	s := tv.Value.ExactString()
	if len(s) >= 2 && s[0] == '"' {
		if u, err := strconv.Unquote(s); err == nil {
			return u
		}
	}
	return s
}

// funcTable: the contents of a package-level map from constant keys to function values, or to small structs with
// function-valued fields, that is never written after its initialisation: key -> function, resp. key -> field -> function.
type funcTable struct {
	fns    map[int64]*ssa.Function         // map[K]func(...)
	fields map[int64]map[int]*ssa.Function // map[K]struct{...func...}: field number -> function
}

// funcTableOf reads the table off the package initialiser's SSA form (a composite literal is compiled to a make
// and one map update per entry).
func (c *Ctx) funcTableOf(g *ssa.Global) *funcTable {
	if g == nil || g.Object() == nil {
		return nil
	}
	key := "funcTable:" + g.Pkg.Pkg.Path() + "." + g.Name()
	if t, ok := c.memo[key]; ok {
		ft, _ := t.(*funcTable)
		return ft
	}
	c.memo[key] = (*funcTable)(nil)
	pkg := c.pkgOfTypes(g.Object().Pkg())
	if pkg == nil || c.immutableVarInit(pkg, g.Object()) == nil {
		return nil
	}
	if _, isMap := g.Object().Type().Underlying().(*types.Map); !isMap {
		return nil
	}
	init := g.Pkg.Func("init")
	if init == nil {
		return nil
	}
	var m ssa.Value
	allInstrs(init, func(in ssa.Instruction) {
		if st, ok := in.(*ssa.Store); ok && st.Addr == ssa.Value(g) {
			m = st.Val
		}
	})
	if _, ok := m.(*ssa.MakeMap); !ok {
		return nil
	}
	fnOf := func(v ssa.Value) *ssa.Function {
		switch x := v.(type) {
		case *ssa.Function:
			return x
		case *ssa.MakeClosure:
			if f, ok := x.Fn.(*ssa.Function); ok && len(x.Bindings) == 0 {
				return f
			}
		}
		return nil
	}
	ft := &funcTable{fns: map[int64]*ssa.Function{}, fields: map[int64]map[int]*ssa.Function{}}
	good := true
	allInstrs(init, func(in ssa.Instruction) {
		mu, ok := in.(*ssa.MapUpdate)
		if !ok || mu.Map != m {
			return
		}
		kc, ok := mu.Key.(*ssa.Const)
		if !ok || kc.Value == nil {
			good = false
			return
		}
		k, ok := constant.Int64Val(constant.ToInt(kc.Value))
		if !ok {
			good = false
			return
		}
		if f := fnOf(mu.Value); f != nil {
			ft.fns[k] = f
			return
		}
		// a struct value loaded from a local composite literal
		if ld, ok := mu.Value.(*ssa.UnOp); ok && ld.Op == token.MUL {
			if al, ok := ld.X.(*ssa.Alloc); ok && al.Referrers() != nil {
				fs := map[int]*ssa.Function{}
				for _, r := range *al.Referrers() {
					fa, ok := r.(*ssa.FieldAddr)
					if !ok || fa.Referrers() == nil {
						continue
					}
					for _, r2 := range *fa.Referrers() {
						if st, ok := r2.(*ssa.Store); ok && st.Addr == ssa.Value(fa) {
							if f := fnOf(st.Val); f != nil {
								fs[fa.Field] = f
							}
						}
					}
				}
				ft.fields[k] = fs
				return
			}
		}
		good = false
	})
	if !good || (len(ft.fns) == 0 && len(ft.fields) == 0) {
		return nil
	}
	c.memo[key] = ft
	return ft
}

// tableLookupOf: v is (a component of) a lookup in a package-level function table: the table, the key value and, for a
// table of structs, the field selected (-1 for a table of plain functions or when the whole entry is meant).
func (c *Ctx) tableLookupOf(v ssa.Value) (ft *funcTable, keyVal ssa.Value, field int, lk *ssa.Lookup) {
	field = -1
	for i := 0; i < 6; i++ {
		switch x := v.(type) {
		case *ssa.Field:
			field = x.Field
			v = x.X
			continue
		case *ssa.Extract:
			if x.Index != 0 {
				return nil, nil, -1, nil
			}
			v = x.Tuple
			continue
		case *ssa.UnOp:
			// the entry was put into a local variable first: a load of (a field of) a local that is stored once
			if x.Op != token.MUL {
				return nil, nil, -1, nil
			}
			addr := x.X
			if fa, ok := addr.(*ssa.FieldAddr); ok {
				field = fa.Field
				addr = fa.X
			}
			al, ok := addr.(*ssa.Alloc)
			if !ok || al.Referrers() == nil {
				return nil, nil, -1, nil
			}
			var stored ssa.Value
			n := 0
			for _, r := range *al.Referrers() {
				if st, ok := r.(*ssa.Store); ok && st.Addr == ssa.Value(al) {
					stored = st.Val
					n++
				}
			}
			if n != 1 {
				return nil, nil, -1, nil
			}
			v = stored
			continue
		case *ssa.Lookup:
			ld, ok := x.X.(*ssa.UnOp)
			if !ok || ld.Op != token.MUL {
				return nil, nil, -1, nil
			}
			g, ok := ld.X.(*ssa.Global)
			if !ok {
				return nil, nil, -1, nil
			}
			if t := c.funcTableOf(g); t != nil {
				return t, x.Index, field, x
			}
			return nil, nil, -1, nil
		}
		break
	}
	return nil, nil, -1, nil
}

// constTree: the value of a composite literal of constants, to any depth: structs (by field name), arrays and slices
// (by position or constant key), maps with constant integer keys; leaves are integer, boolean or string constants.
// A missing struct field, array element or map entry is the zero value (nil child: zeroOf tells the kind).
type constTree struct {
	kind   byte // 'i' int, 'b' bool, 's' string, 'S' struct, 'A' array/slice, 'M' map
	i      int64
	b      bool
	s      string
	fields map[string]*constTree
	elems  map[int64]*constTree
	typ    types.Type
}

// constTreeOf: the contents of a package-level variable that is never written after its initialisation and whose
// initialiser is a composite literal of constants (nested to any depth); nil otherwise.
func (c *Ctx) constTreeOf(o types.Object) *constTree {
	if o == nil || o.Pkg() == nil {
		return nil
	}
	if _, isVar := o.(*types.Var); !isVar {
		return nil
	}
	key := "constTree:" + o.Pkg().Path() + "." + o.Name()
	if t, ok := c.memo[key]; ok {
		ct, _ := t.(*constTree)
		return ct
	}
	c.memo[key] = (*constTree)(nil)
	pkg := c.pkgOfTypes(o.Pkg())
	if pkg == nil {
		return nil
	}
	init := c.immutableVarInit(pkg, o)
	if init == nil {
		return nil
	}
	t := evalConstTree(pkg.TypesInfo, init, o.Type())
	if t == nil {
		return nil
	}
	c.memo[key] = t
	return t
}

func evalConstTree(info *types.Info, e ast.Expr, t types.Type) *constTree {
	for {
		if p, ok := e.(*ast.ParenExpr); ok {
			e = p.X
			continue
		}
		break
	}
	if tv, ok := info.Types[e]; ok && tv.Value != nil {
		switch tv.Value.Kind() {
		case constant.Bool:
			return &constTree{kind: 'b', b: constant.BoolVal(tv.Value), typ: t}
		case constant.String:
			return &constTree{kind: 's', s: constant.StringVal(tv.Value), typ: t}
		case constant.Int:
			if v, ok := constant.Int64Val(tv.Value); ok {
				return &constTree{kind: 'i', i: v, typ: t}
			}
		}
		return nil
	}
	if u, ok := e.(*ast.UnaryExpr); ok && u.Op == token.AND {
		e = u.X
		if p, ok := t.Underlying().(*types.Pointer); ok {
			t = p.Elem()
		}
	}
	cl, ok := e.(*ast.CompositeLit)
	if !ok {
		return nil
	}
	if lt := info.TypeOf(cl); lt != nil {
		t = lt
	}
	if p, ok := t.Underlying().(*types.Pointer); ok {
		t = p.Elem()
	}
	switch u := t.Underlying().(type) {
	case *types.Struct:
		out := &constTree{kind: 'S', fields: map[string]*constTree{}, typ: t}
		for i, el := range cl.Elts {
			name, val := "", el
			var ft types.Type
			if kv, ok := el.(*ast.KeyValueExpr); ok {
				if id, ok := kv.Key.(*ast.Ident); ok {
					name = id.Name
				}
				val = kv.Value
			} else if i < u.NumFields() {
				name = u.Field(i).Name()
			}
			for j := 0; j < u.NumFields(); j++ {
				if u.Field(j).Name() == name {
					ft = u.Field(j).Type()
				}
			}
			if name == "" || ft == nil {
				return nil
			}
			// a field that is not a constant (a function, say) stays unknown (nil); the rest of the struct is still known
			out.fields[name] = evalConstTree(info, val, ft)
		}
		return out
	case *types.Array, *types.Slice:
		var et types.Type
		if a, ok := u.(*types.Array); ok {
			et = a.Elem()
		} else {
			et = u.(*types.Slice).Elem()
		}
		out := &constTree{kind: 'A', elems: map[int64]*constTree{}, typ: t}
		idx := int64(0)
		for _, el := range cl.Elts {
			val := el
			if kv, ok := el.(*ast.KeyValueExpr); ok {
				k, ok := constInt(info, kv.Key)
				if !ok {
					return nil
				}
				idx = k
				val = kv.Value
			}
			child := evalConstTree(info, val, et)
			if child == nil {
				return nil
			}
			out.elems[idx] = child
			idx++
		}
		return out
	case *types.Map:
		out := &constTree{kind: 'M', elems: map[int64]*constTree{}, typ: t}
		for _, el := range cl.Elts {
			kv, ok := el.(*ast.KeyValueExpr)
			if !ok {
				return nil
			}
			k, ok := constInt(info, kv.Key)
			if !ok {
				return nil
			}
			child := evalConstTree(info, kv.Value, u.Elem())
			if child == nil {
				return nil
			}
			out.elems[k] = child
		}
		return out
	}
	return nil
}

// zeroConstTree: the zero value of a type as a constant tree (for a missing element or field).
func zeroConstTree(t types.Type) *constTree {
	switch u := t.Underlying().(type) {
	case *types.Basic:
		switch {
		case u.Info()&types.IsBoolean != 0:
			return &constTree{kind: 'b', typ: t}
		case u.Info()&types.IsInteger != 0:
			return &constTree{kind: 'i', typ: t}
		case u.Info()&types.IsString != 0:
			return &constTree{kind: 's', typ: t}
		}
	case *types.Struct:
		return &constTree{kind: 'S', fields: map[string]*constTree{}, typ: t}
	case *types.Array:
		return &constTree{kind: 'A', elems: map[int64]*constTree{}, typ: t}
	}
	return nil
}

// index / field: one step into the tree (zero value for what the literal leaves out).
func (t *constTree) index(k int64) (*constTree, bool) {
	if t == nil {
		return nil, false
	}
	switch t.kind {
	case 'A':
		if ch, ok := t.elems[k]; ok {
			return ch, true
		}
		switch u := t.typ.Underlying().(type) {
		case *types.Array:
			if k >= 0 && k < u.Len() {
				return zeroConstTree(u.Elem()), true
			}
		}
		return nil, false
	case 'M':
		if ch, ok := t.elems[k]; ok {
			return ch, true
		}
		if m, ok := t.typ.Underlying().(*types.Map); ok {
			return zeroConstTree(m.Elem()), false
		}
	}
	return nil, false
}

func (t *constTree) field(name string) *constTree {
	if t == nil || t.kind != 'S' {
		return nil
	}
	if ch, ok := t.fields[name]; ok {
		return ch
	}
	if st, ok := t.typ.Underlying().(*types.Struct); ok {
		for i := 0; i < st.NumFields(); i++ {
			if st.Field(i).Name() == name {
				return zeroConstTree(st.Field(i).Type())
			}
		}
	}
	return nil
}
