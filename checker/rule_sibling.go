package main

import (
	"fmt"
	"go/ast"
	"go/token"
	"go/types"
	"sort"
	"strings"
)

// R-SIBLING: sibling implementations must agree (Engler-style cross-check).
// (a) VM handler clauses of one opcode family (X-Global / X-Local) reduce to the same canonical
//     action list once the storage accessor is abstracted;
// (b) compiler code templates of sibling cases (&& / ||, print / printf, Global / Local scope cases)
//     emit the same opcode sequence modulo the sibling renaming.

func init() {
	register("R-SIBLING", "sibling implementations agree: (a) for every opcode pair X-Global/X-Local the two VM handler clauses, normalised to a canonical list of actions over symbolic stack slots and operands (local variables inlined, stack helpers interpreted), are identical once `p.globals[i]`/`p.frame[i]` and `p.arrays[i]`/`p.localArray(i)` are abstracted to one storage accessor; likewise the builtin pairs sub/gsub, tolower/toupper and the one-argument math functions modulo the library function called; (b) the code templates the compiler emits for the sibling cases && / || (modulo JumpFalse/JumpTrue), print / printf (modulo the opcode) and the Global / Local / Special scope cases (modulo the opcode suffix) are the same opcode sequence. A one-sided edit of one sibling (wrong operand order, missing normalisation, different value constructor) shows up as a difference", ruleSibling)
}

type termer struct {
	m     *vmModel
	info  *types.Info
	env   map[types.Object]string
	pops  int      // entry slots consumed so far
	push  []string // values pushed above the entry stack
	over  map[int]string
	epoch int
	acts  []string
	sp    int
}

func (t *termer) clone() *termer {
	n := &termer{m: t.m, info: t.info, env: map[types.Object]string{}, pops: t.pops, over: map[int]string{}, epoch: t.epoch, sp: t.sp}
	for k, v := range t.env {
		n.env[k] = v
	}
	for k, v := range t.over {
		n.over[k] = v
	}
	n.push = append([]string(nil), t.push...)
	return n
}

func (t *termer) slot(depth int) string {
	// depth 1 = current top
	if depth <= len(t.push) {
		return t.push[len(t.push)-depth]
	}
	d := t.pops + depth - len(t.push)
	if v, ok := t.over[d]; ok {
		return v
	}
	return fmt.Sprintf("S%d.%d", t.epoch, d)
}

func (t *termer) setSlot(depth int, v string) {
	if depth <= len(t.push) {
		t.push[len(t.push)-depth] = v
		return
	}
	t.over[t.pops+depth-len(t.push)] = v
}

func (t *termer) popN(n int) {
	for i := 0; i < n; i++ {
		if len(t.push) > 0 {
			t.push = t.push[:len(t.push)-1]
		} else {
			t.pops++
		}
	}
}

// helper semantics (verified against the helper bodies by R-STACK's derived deltas)
func (t *termer) helper(name string, args []string) ([]string, bool) {
	switch name {
	case "pop":
		v := t.slot(1)
		t.popN(1)
		return []string{v}, true
	case "popTwo":
		a, b := t.slot(2), t.slot(1)
		t.popN(2)
		return []string{a, b}, true
	case "peekTop":
		return []string{t.slot(1)}, true
	case "peekTwo":
		return []string{t.slot(2), t.slot(1)}, true
	case "peekPop":
		a, b := t.slot(2), t.slot(1)
		t.popN(1)
		return []string{a, b}, true
	case "peekPeekPop":
		a, b, c := t.slot(3), t.slot(2), t.slot(1)
		t.popN(1)
		return []string{a, b, c}, true
	case "replaceTop":
		t.setSlot(1, args[0])
		t.acts = append(t.acts, "top:="+args[0])
		return nil, true
	case "replaceTwo":
		t.setSlot(2, args[0])
		t.setSlot(1, args[1])
		t.acts = append(t.acts, "top2:="+args[0]+","+args[1])
		return nil, true
	case "push":
		t.push = append(t.push, args[0])
		t.acts = append(t.acts, "push "+args[0])
		return nil, true
	case "popSlice", "peekSlice", "pushNulls":
		// symbolic size: start a new epoch of slot names
		t.acts = append(t.acts, name+"("+strings.Join(args, ",")+")")
		t.epoch++
		t.pops, t.push, t.over = 0, nil, map[int]string{}
		return []string{fmt.Sprintf("%s#%d(%s)", name, t.epoch, strings.Join(args, ","))}, true
	}
	return nil, false
}

func (t *termer) terms(e ast.Expr) []string {
	if call, ok := stripParens(e).(*ast.CallExpr); ok {
		if se, ok := call.Fun.(*ast.SelectorExpr); ok {
			if _, isHelper := t.m.helpers[se.Sel.Name]; (isHelper || se.Sel.Name == "peekTop" || se.Sel.Name == "peekTwo" || se.Sel.Name == "peekSlice" || se.Sel.Name == "replaceTop" || se.Sel.Name == "replaceTwo") && isInterp(t.info.TypeOf(se.X)) {
				var as []string
				for _, a := range call.Args {
					as = append(as, t.term(a))
				}
				if r, ok := t.helper(se.Sel.Name, as); ok {
					return r
				}
			}
		}
		// multi-value call: name the components
		if tup, ok := t.info.TypeOf(call).(*types.Tuple); ok && tup.Len() > 1 {
			base := t.term(call)
			var out []string
			for i := 0; i < tup.Len(); i++ {
				out = append(out, fmt.Sprintf("%s.%d", base, i))
			}
			return out
		}
	}
	return []string{t.term(e)}
}

func (t *termer) term(e ast.Expr) string {
	e = stripParens(e)
	if tv, ok := t.info.Types[e]; ok && tv.Value != nil {
		if n := constName(t.info, e); n != "" {
			return n
		}
		return tv.Value.ExactString()
	}
	switch x := e.(type) {
	case *ast.Ident:
		if v, ok := t.env[t.info.Uses[x]]; ok {
			return v
		}
		return x.Name
	case *ast.SelectorExpr:
		return t.term(x.X) + "." + x.Sel.Name
	case *ast.IndexExpr:
		if id, ok := x.X.(*ast.Ident); ok && t.info.Uses[id] == t.m.codeObj && t.m.codeObj != nil {
			w := &vmWalker{m: t.m}
			if k, ok := w.ipOffset(x.Index); ok {
				return fmt.Sprintf("op%d", k+t.sp)
			}
		}
		return t.term(x.X) + "[" + t.term(x.Index) + "]"
	case *ast.CallExpr:
		rs := []string{}
		if se, ok := x.Fun.(*ast.SelectorExpr); ok && isInterp(t.info.TypeOf(se.X)) {
			var as []string
			for _, a := range x.Args {
				as = append(as, t.term(a))
			}
			if r, ok := t.helper(se.Sel.Name, as); ok {
				if len(r) > 0 {
					return r[0]
				}
				return "void"
			}
			return "p." + se.Sel.Name + "(" + strings.Join(as, ",") + ")"
		}
		if tv, ok := t.info.Types[x.Fun]; ok && tv.IsType() && len(x.Args) == 1 {
			// conversions: keep float64/string conversions, drop integer/opcode ones
			inner := t.term(x.Args[0])
			if b, ok := tv.Type.Underlying().(*types.Basic); ok && b.Info()&types.IsInteger != 0 {
				return inner
			}
			return types.TypeString(tv.Type, func(*types.Package) string { return "" }) + "(" + inner + ")"
		}
		for _, a := range x.Args {
			rs = append(rs, t.term(a))
		}
		return t.term(x.Fun) + "(" + strings.Join(rs, ",") + ")"
	case *ast.BinaryExpr:
		return "(" + t.term(x.X) + x.Op.String() + t.term(x.Y) + ")"
	case *ast.UnaryExpr:
		return x.Op.String() + t.term(x.X)
	case *ast.StarExpr:
		return "*" + t.term(x.X)
	case *ast.SliceExpr:
		s := t.term(x.X) + "["
		if x.Low != nil {
			s += t.term(x.Low)
		}
		s += ":"
		if x.High != nil {
			s += t.term(x.High)
		}
		return s + "]"
	case *ast.TypeAssertExpr:
		return t.term(x.X) + ".(" + types.ExprString(x.Type) + ")"
	case *ast.CompositeLit:
		var as []string
		for _, el := range x.Elts {
			if kv, ok := el.(*ast.KeyValueExpr); ok {
				as = append(as, types.ExprString(kv.Key)+":"+t.term(kv.Value))
			} else {
				as = append(as, t.term(el))
			}
		}
		return types.ExprString(x.Type) + "{" + strings.Join(as, ",") + "}"
	case *ast.FuncLit:
		return "func"
	case *ast.BasicLit:
		return x.Value
	}
	return types.ExprString(e)
}

func (t *termer) stmts(list []ast.Stmt) {
	for _, s := range list {
		t.stmt(s)
	}
}

func (t *termer) stmt(s ast.Stmt) {
	switch s := s.(type) {
	case *ast.AssignStmt:
		// ip arithmetic is covered by R-ARITY; skip `ip += n`
		if len(s.Lhs) == 1 {
			if id, ok := s.Lhs[0].(*ast.Ident); ok && t.info.Uses[id] == t.m.ipObj && t.m.ipObj != nil {
				if v, ok := constInt(t.info, s.Rhs[0]); ok && s.Tok == token.ADD_ASSIGN {
					t.sp += int(v)
					return
				}
				t.acts = append(t.acts, "ip"+s.Tok.String()+t.term(s.Rhs[0]))
				return
			}
		}
		var vals []string
		if len(s.Rhs) == 1 && len(s.Lhs) > 1 {
			vals = t.terms(s.Rhs[0])
		} else {
			for _, r := range s.Rhs {
				vals = append(vals, t.term(r))
			}
		}
		for i, l := range s.Lhs {
			v := "?"
			if i < len(vals) {
				v = vals[i]
			}
			if id, ok := l.(*ast.Ident); ok {
				if id.Name == "_" {
					continue
				}
				o := t.info.Defs[id]
				if o == nil {
					o = t.info.Uses[id]
				}
				if s.Tok != token.DEFINE && s.Tok != token.ASSIGN {
					v = "(" + t.term(l) + strings.TrimSuffix(s.Tok.String(), "=") + v + ")"
				}
				// calls with effects bound to a variable: keep their order (the term was evaluated once, above)
				if len(s.Rhs) == 1 {
					if call, ok := stripParens(s.Rhs[0]).(*ast.CallExpr); ok && i == 0 && !t.isHelperCall(call) && !t.isPure(call) {
						base := v
						if len(s.Lhs) > 1 {
							base = strings.TrimSuffix(v, ".0")
						}
						t.acts = append(t.acts, "eval "+base)
					}
				}
				t.env[o] = v
				continue
			}
			op := ":="
			if s.Tok != token.ASSIGN && s.Tok != token.DEFINE {
				op = s.Tok.String()
			}
			t.acts = append(t.acts, "store "+t.term(l)+op+v)
		}
	case *ast.ExprStmt:
		if call, ok := s.X.(*ast.CallExpr); ok && t.isHelperCall(call) {
			t.term(call)
			return
		}
		t.acts = append(t.acts, "do "+t.term(s.X))
	case *ast.IncDecStmt:
		if id, ok := s.X.(*ast.Ident); ok && t.info.Uses[id] == t.m.ipObj && t.m.ipObj != nil {
			t.sp++
			return
		}
		t.acts = append(t.acts, "store "+t.term(s.X)+s.Tok.String())
	case *ast.ReturnStmt:
		var rs []string
		for _, r := range s.Results {
			rs = append(rs, t.term(r))
		}
		t.acts = append(t.acts, "return "+strings.Join(rs, ","))
	case *ast.IfStmt:
		if s.Init != nil {
			t.stmt(s.Init)
		}
		cond := t.term(s.Cond)
		a := t.clone()
		a.stmts(s.Body.List)
		str := "if(" + cond + "){" + strings.Join(a.acts, ";") + "}"
		if s.Else != nil {
			b := t.clone()
			b.stmt(s.Else)
			str += "else{" + strings.Join(b.acts, ";") + "}"
		}
		t.acts = append(t.acts, str)
	case *ast.BlockStmt:
		t.stmts(s.List)
	case *ast.SwitchStmt, *ast.TypeSwitchStmt:
		var body *ast.BlockStmt
		head := "switch"
		if sw, ok := s.(*ast.SwitchStmt); ok {
			body = sw.Body
			if sw.Tag != nil {
				head += "(" + t.term(sw.Tag) + ")"
			}
		} else {
			body = s.(*ast.TypeSwitchStmt).Body
			head = "typeswitch"
		}
		var cs []string
		for _, c := range body.List {
			cc := c.(*ast.CaseClause)
			var labels []string
			for _, e := range cc.List {
				labels = append(labels, t.term(e))
			}
			b := t.clone()
			b.stmts(cc.Body)
			cs = append(cs, "case "+strings.Join(labels, ",")+":{"+strings.Join(b.acts, ";")+"}")
		}
		t.acts = append(t.acts, head+"{"+strings.Join(cs, " ")+"}")
	case *ast.ForStmt:
		b := t.clone()
		if s.Init != nil {
			b.stmt(s.Init)
		}
		hd := "for("
		if s.Cond != nil {
			hd += b.term(s.Cond)
		}
		b.acts = nil
		b.stmts(s.Body.List)
		t.acts = append(t.acts, hd+"){"+strings.Join(b.acts, ";")+"}")
	case *ast.RangeStmt:
		b := t.clone()
		b.acts = nil
		b.stmts(s.Body.List)
		t.acts = append(t.acts, "range("+t.term(s.X)+"){"+strings.Join(b.acts, ";")+"}")
	case *ast.BranchStmt:
		t.acts = append(t.acts, s.Tok.String())
	case *ast.DeclStmt:
		if gd, ok := s.Decl.(*ast.GenDecl); ok {
			for _, sp := range gd.Specs {
				if vs, ok := sp.(*ast.ValueSpec); ok {
					for i, nm := range vs.Names {
						if i < len(vs.Values) {
							t.env[t.info.Defs[nm]] = t.term(vs.Values[i])
						}
					}
				}
			}
		}
	default:
		t.acts = append(t.acts, fmt.Sprintf("%T", s))
	}
}

func (t *termer) isHelperCall(call *ast.CallExpr) bool {
	se, ok := call.Fun.(*ast.SelectorExpr)
	if !ok || !isInterp(t.info.TypeOf(se.X)) {
		return false
	}
	switch se.Sel.Name {
	case "pop", "popTwo", "peekTop", "peekTwo", "peekPop", "peekPeekPop", "replaceTop", "replaceTwo", "push", "popSlice", "peekSlice", "pushNulls":
		return true
	}
	return false
}

func (t *termer) isPure(call *ast.CallExpr) bool {
	// value constructors and accessors without effects
	name := ""
	switch f := call.Fun.(type) {
	case *ast.Ident:
		name = f.Name
	case *ast.SelectorExpr:
		name = f.Sel.Name
	}
	switch name {
	case "num", "str", "numStr", "null", "boolean", "toString", "isTrueStr", "arrayGet", "localArray", "array", "float64", "int", "len":
		return true
	}
	if tv, ok := t.info.Types[call.Fun]; ok && tv.IsType() {
		return true
	}
	return false
}

// canonical form of a clause
func clauseTerm(m *vmModel, body []ast.Stmt) string {
	t := &termer{m: m, info: m.pkg.TypesInfo, env: map[types.Object]string{}, over: map[int]string{}}
	t.stmts(body)
	return strings.Join(t.acts, "; ")
}

func abstractStorage(s string) string {
	r := strings.NewReplacer(
		"p.globals[", "VAR[", "p.frame[", "VAR[",
		"p.localArray(", "ARR(", "p.arrays[", "ARR[",
	)
	s = r.Replace(s)
	// ARR[opK] vs ARR(opK): unify brackets
	s = strings.ReplaceAll(s, "ARR(", "ARR[")
	var sb strings.Builder
	// close: replace the matching ')' of ARR( ... ) — accessor arguments are simple operands, so a light pass suffices
	depthStack := []int{}
	for i := 0; i < len(s); i++ {
		sb.WriteByte(s[i])
		_ = depthStack
	}
	out := sb.String()
	// normalise "ARR[opN)" produced from p.localArray(opN)
	for k := 0; k < 6; k++ {
		out = strings.ReplaceAll(out, fmt.Sprintf("ARR[op%d)", k), fmt.Sprintf("ARR[op%d]", k))
	}
	return out
}

func ruleSibling(c *Ctx) {
	vm := buildVMModel(c)
	var names []string
	for n := range vm.clauses {
		names = append(names, n)
	}
	sort.Strings(names)
	nPairs := 0
	for _, g := range names {
		if !strings.HasSuffix(g, "Global") {
			continue
		}
		l := strings.TrimSuffix(g, "Global") + "Local"
		if vm.clauses[l] == nil {
			continue
		}
		nPairs++
		tg := abstractStorage(clauseTerm(vm, vm.clauses[g].Body))
		tl := abstractStorage(clauseTerm(vm, vm.clauses[l].Body))
		key := "vm-pair:" + g + "/" + l
		if tg == tl {
			c.ok(key, vm.clauses[l].Pos(), "identical modulo storage accessor: %s", truncate(tg, 160))
		} else {
			c.bad(key, vm.clauses[l].Pos(), "handlers of %s and %s differ beyond the storage they address:\n   %s\n   %s", g, l, tg, tl)
		}
	}
	c.atLeast("Global/Local handler pairs", nPairs, 9)

	// the six getline handlers store into their target under the same guard on getline's result
	guards := map[string]string{}
	for _, cl := range []string{"Getline", "GetlineField", "GetlineGlobal", "GetlineLocal", "GetlineSpecial", "GetlineArray"} {
		cc := vm.clauses[cl]
		if cc == nil {
			continue
		}
		var retName string
		for _, s := range cc.Body {
			if as, ok := s.(*ast.AssignStmt); ok && len(as.Lhs) == 3 && len(as.Rhs) == 1 {
				if call, ok := as.Rhs[0].(*ast.CallExpr); ok {
					if se, ok := call.Fun.(*ast.SelectorExpr); ok && se.Sel.Name == "getline" {
						retName = as.Lhs[0].(*ast.Ident).Name
					}
				}
			}
		}
		for _, s := range cc.Body {
			if is, ok := s.(*ast.IfStmt); ok && strings.Contains(types.ExprString(is.Cond), retName) && retName != "" {
				if !strings.Contains(types.ExprString(is.Cond), "err") {
					guards[cl] = strings.ReplaceAll(types.ExprString(is.Cond), retName, "RET")
				}
			}
		}
		if retName == "" {
			// the read and the guard live in a helper that is handed the store as a function: the guard is the helper's
			if g, lit := getlineDelegate(c, vm, cc); lit != nil {
				guards[cl] = g
			}
		}
	}
	if len(guards) >= 5 {
		ref := guards["GetlineGlobal"]
		var diff []string
		for cl, g := range guards {
			if g != ref {
				diff = append(diff, cl+": "+g)
			}
		}
		sort.Strings(diff)
		c.check(len(diff) == 0 && ref == "RET == 1", "getline-guard", vm.clauses["Getline"].Pos(), fmt.Sprintf("all %d getline handlers assign their target exactly when getline returned 1", len(guards)), fmt.Sprintf("getline handlers assign their target under different conditions (reference `%s`): %v: at end of input or on error one form overwrites its target ($0/NF or a variable) while the others leave it alone", ref, diff))
	} else {
		c.undecided("getline-guard", token.NoPos, "result guards of the getline handlers not recognised (%d found)", len(guards))
	}

	// builtin pairs
	bfd := c.funcDecl("interp", "interp.callBuiltin")
	if bfd != nil {
		clauses := map[string]*ast.CaseClause{}
		ast.Inspect(bfd.Body, func(n ast.Node) bool {
			if cc, ok := n.(*ast.CaseClause); ok {
				for _, e := range cc.List {
					if nm := constName(vm.pkg.TypesInfo, e); nm != "" {
						clauses[nm] = cc
					}
				}
			}
			return true
		})
		pairs := [][3]string{
			{"BuiltinSub", "BuiltinGsub", "false>true"},
			{"BuiltinTolower", "BuiltinToupper", "strings.ToLower>strings.ToUpper"},
			{"BuiltinSin", "BuiltinCos", "math.Sin>math.Cos"},
			{"BuiltinSin", "BuiltinExp", "math.Sin>math.Exp"},
			{"BuiltinSin", "BuiltinLog", "math.Sin>math.Log"},
			{"BuiltinSin", "BuiltinSqrt", "math.Sin>math.Sqrt"},
		}
		for _, p := range pairs {
			a, b := clauses[p[0]], clauses[p[1]]
			key := "builtin-pair:" + p[0] + "/" + p[1]
			if a == nil || b == nil {
				c.undecided(key, token.NoPos, "builtin clause not found")
				continue
			}
			ft := strings.Split(p[2], ">")
			ta := strings.ReplaceAll(clauseTerm(vm, a.Body), ft[0], ft[1])
			tb := clauseTerm(vm, b.Body)
			if ta == tb {
				c.ok(key, b.Pos(), "identical modulo %s: %s", p[2], truncate(tb, 140))
			} else {
				c.bad(key, b.Pos(), "builtin handlers %s and %s differ beyond %s:\n   %s\n   %s", p[0], p[1], p[2], ta, tb)
			}
		}
	}

	// (b) compiler templates
	cm := buildCompModel(c)
	traces := map[string]bool{}
	for _, o := range cm.obs {
		if strings.HasPrefix(o.key, "template:") {
			traces[o.key] = true
		}
	}
	type fam struct {
		name string
		from []string
		to   []string
	}
	fams := []fam{
		{"and/or", []string{"case lexer.AND", "JumpFalse"}, []string{"case lexer.OR", "JumpTrue"}},
		{"print/printf", []string{"case PrintStmt", ">Print"}, []string{"case PrintfStmt", ">Printf"}},
		{"global/local", []string{"case resolver.Global", "Global>", "Global)"}, []string{"case resolver.Local", "Local>", "Local)"}},
	}
	nT := 0
	for _, f := range fams {
		var ks []string
		for k := range traces {
			if strings.Contains(k, f.from[0]) {
				ks = append(ks, k)
			}
		}
		sort.Strings(ks)
		for _, k := range ks {
			k2 := k + ">"
			for i := range f.from {
				k2 = strings.ReplaceAll(k2, f.from[i], f.to[i])
			}
			k2 = strings.TrimSuffix(k2, ">")
			// a template that ends in the opcode needs the suffix rule too
			if strings.HasSuffix(k2, "Global") && f.name == "global/local" {
				k2 = strings.TrimSuffix(k2, "Global") + "Local"
			}
			nT++
			key := "template-sibling:" + f.name + ":" + strings.TrimPrefix(k, "template:")
			if traces[k2] {
				c.ok(key, token.NoPos, "the sibling case emits the same opcode sequence")
			} else {
				c.bad(key, token.NoPos, "code template %q has no counterpart %q among the sibling case's templates: the two cases no longer emit the same sequence", strings.TrimPrefix(k, "template:"), strings.TrimPrefix(k2, "template:"))
			}
		}
	}
	c.atLeast("sibling code templates compared", nT, 10)
}

func truncate(s string, n int) string {
	if len(s) > n {
		return s[:n] + "..."
	}
	return s
}

// getlineDelegate: the clause hands a function literal (what to do with the line) to a helper of the interpreter
// that calls p.getline itself and calls that function with the line read, under a test of getline's result: the
// guard (with the result's name replaced by RET) and the literal; nil when the clause is not of that form.
func getlineDelegate(c *Ctx, vm *vmModel, cc *ast.CaseClause) (string, *ast.FuncLit) {
	info := vm.pkg.TypesInfo
	var guard string
	var found *ast.FuncLit
	ast.Inspect(cc, func(n ast.Node) bool {
		call, ok := n.(*ast.CallExpr)
		if !ok || found != nil {
			return true
		}
		f := calleeOf(info, call)
		if f == nil || f.Pkg() != vm.pkg.Types {
			return true
		}
		litIdx := -1
		var lit *ast.FuncLit
		for i, a := range call.Args {
			if fl, ok := a.(*ast.FuncLit); ok {
				litIdx, lit = i, fl
			}
		}
		if lit == nil {
			return true
		}
		var hd *ast.FuncDecl
		for _, d := range c.allFuncDecls("interp") {
			if info.Defs[d.Name] == types.Object(f) {
				hd = d
			}
		}
		if hd == nil || hd.Body == nil {
			return true
		}
		// the helper's function parameter
		var fnParam types.Object
		i := 0
		for _, fl := range hd.Type.Params.List {
			for _, nm := range fl.Names {
				if i == litIdx {
					fnParam = info.Defs[nm]
				}
				i++
			}
		}
		if fnParam == nil {
			return true
		}
		var retName, lineName string
		for _, st := range hd.Body.List {
			if as, ok := st.(*ast.AssignStmt); ok && len(as.Lhs) == 3 && len(as.Rhs) == 1 {
				if gc, ok := as.Rhs[0].(*ast.CallExpr); ok {
					if se, ok := gc.Fun.(*ast.SelectorExpr); ok && se.Sel.Name == "getline" {
						if a, ok := as.Lhs[0].(*ast.Ident); ok {
							retName = a.Name
						}
						if b, ok := as.Lhs[1].(*ast.Ident); ok {
							lineName = b.Name
						}
					}
				}
			}
		}
		if retName == "" || lineName == "" {
			return true
		}
		for _, st := range hd.Body.List {
			is, ok := st.(*ast.IfStmt)
			if !ok || !strings.Contains(types.ExprString(is.Cond), retName) || strings.Contains(types.ExprString(is.Cond), "err") {
				continue
			}
			callsStore := false
			ast.Inspect(is.Body, func(m ast.Node) bool {
				if sc, ok := m.(*ast.CallExpr); ok {
					if id, ok := sc.Fun.(*ast.Ident); ok && info.Uses[id] == fnParam && len(sc.Args) == 1 && isIdent(sc.Args[0], lineName) {
						callsStore = true
					}
				}
				return true
			})
			// the function is called nowhere else in the helper
			nCalls := 0
			ast.Inspect(hd.Body, func(m ast.Node) bool {
				if sc, ok := m.(*ast.CallExpr); ok {
					if id, ok := sc.Fun.(*ast.Ident); ok && info.Uses[id] == fnParam {
						nCalls++
					}
				}
				return true
			})
			if callsStore && nCalls == 1 {
				guard = strings.ReplaceAll(types.ExprString(is.Cond), retName, "RET")
				found = lit
			}
		}
		return true
	})
	return guard, found
}
