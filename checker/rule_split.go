package main

import (
	"fmt"
	"go/ast"
	"go/token"
	"go/types"
	"sort"
	"strings"

	"golang.org/x/tools/go/ssa"
)

// R-SPLIT (C07, C08): protocol of the bufio.SplitFunc record splitters.

func init() {
	register("R-SPLIT", "every record splitter (bufio.SplitFunc) in package interp obeys the Scanner protocol: (STATE) no store to the splitter's persistent fields, no write through its pointers into interpreter state and no callback happens on a path that can still end in the `need more data` return (0, nil, nil), because the call is then repeated on the same bytes; (EOF) every return that delivers a record is reachable only through the terminator search (a search call, a comparison of data elements, or the loop that contains one) - in particular the `rest of the buffer is the final record` return is taken only after the search failed, never merely because atEOF is set; (MUNCH) a terminator found by maximal munch (regexp FindIndex, or a loop advancing over a character class) is committed only after an explicit comparison of its end with len(data), with the `need more data` return reachable from that comparison; (COORD) the named result `advance`, which counts bytes of the data parameter, only indexes the original data slice, and a length taken from a slice that starts at a non-zero offset is not used to index a slice with another origin", ruleSplit)
}

var splitScratch = map[string]string{
	"recordBuffer": "reset to length 0 before each record is parsed",
	"fieldIndexes": "reset to length 0 before each record is parsed",
}

type splitFn struct {
	fn      *ssa.Function
	data    *ssa.Parameter
	atEOF   *ssa.Parameter
	recv    *ssa.Parameter
	dataCel *ssa.Alloc // spill cell of data when captured by a closure
}

func isSplitFunc(fn *ssa.Function) bool {
	sig := fn.Signature
	if sig.Params().Len() != 2 || sig.Results().Len() != 3 {
		return false
	}
	p0, ok := sig.Params().At(0).Type().(*types.Slice)
	if !ok {
		return false
	}
	if b, ok := p0.Elem().(*types.Basic); !ok || b.Kind() != types.Byte {
		return false
	}
	if b, ok := sig.Params().At(1).Type().(*types.Basic); !ok || b.Kind() != types.Bool {
		return false
	}
	return types.TypeString(sig.Results().At(2).Type(), nil) == "error"
}

// dataDerived: v is the data parameter, a load of its spill cell, or a re-slice / phi of those.
func (s *splitFn) dataDerived(v ssa.Value, depth int) bool {
	if depth > 6 || v == nil {
		return false
	}
	switch x := v.(type) {
	case *ssa.Parameter:
		return x == s.data
	case *ssa.UnOp:
		if x.Op == token.MUL {
			if a, ok := x.X.(*ssa.Alloc); ok && a == s.dataCel && a != nil {
				return true
			}
			if fv, ok := x.X.(*ssa.FreeVar); ok && fv.Name() == "data" {
				return true
			}
		}
	case *ssa.Slice:
		return s.dataDerived(x.X, depth+1)
	case *ssa.Phi:
		for _, e := range x.Edges {
			if s.dataDerived(e, depth+1) {
				return true
			}
		}
	case *ssa.Call:
		// helper returning a prefix of its argument (dropCR/dropLF)
		for _, a := range x.Call.Args {
			if s.dataDerived(a, depth+1) {
				if _, isSl := x.Type().(*types.Slice); isSl {
					return true
				}
			}
		}
	}
	return false
}

var searchCallees = map[string]bool{"bytes.IndexByte": true, "bytes.IndexRune": true, "bytes.Index": true, "bytes.IndexAny": true,
	"(*regexp.Regexp).FindIndex": true, "(*regexp.Regexp).FindSubmatchIndex": true, "bytes.LastIndexByte": true}

func (s *splitFn) containsSearch(fn *ssa.Function, seen map[*ssa.Function]bool) map[*ssa.BasicBlock]bool {
	out := map[*ssa.BasicBlock]bool{}
	if seen[fn] {
		return out
	}
	seen[fn] = true
	for _, b := range fn.Blocks {
		for _, in := range b.Instrs {
			switch x := in.(type) {
			case ssa.CallInstruction:
				cc := x.Common()
				if f := cc.StaticCallee(); f != nil {
					if searchCallees[f.String()] {
						out[b] = true
					}
					if f.Parent() != nil { // local closure
						if len(s.containsSearch(f, seen)) > 0 {
							out[b] = true
						}
					} else if f.Pkg == fn.Pkg && len(f.Blocks) > 0 && !seen[f] {
						// a plain helper of the package that is handed the data (or one element of it) and searches or
						// compares it there
						for i, a := range cc.Args {
							if i >= len(f.Params) {
								break
							}
							isElem := false
							if u, ok := a.(*ssa.UnOp); ok && u.Op == token.MUL {
								if ia, ok := u.X.(*ssa.IndexAddr); ok && s.dataDerived(ia.X, 0) {
									isElem = true
								}
							}
							if s.dataDerived(a, 0) {
								sub := &splitFn{fn: f, data: f.Params[i]}
								if len(sub.containsSearch(f, seen)) > 0 {
									out[b] = true
								}
							} else if isElem && comparesParam(f, f.Params[i]) {
								out[b] = true
							}
						}
					}
				} else if !cc.IsInvoke() {
					// call of a closure value: resolve MakeClosure
					if u, ok := cc.Value.(*ssa.UnOp); ok {
						if a, ok := u.X.(*ssa.Alloc); ok {
							for _, r := range *a.Referrers() {
								if st, ok := r.(*ssa.Store); ok {
									if mc, ok := st.Val.(*ssa.MakeClosure); ok {
										sub := &splitFn{fn: mc.Fn.(*ssa.Function)}
										if len(sub.containsSearchAny(mc.Fn.(*ssa.Function))) > 0 {
											out[b] = true
										}
									}
								}
							}
						}
					}
					if mc, ok := cc.Value.(*ssa.MakeClosure); ok {
						if len((&splitFn{}).containsSearchAny(mc.Fn.(*ssa.Function))) > 0 {
							out[b] = true
						}
					}
				}
			case *ssa.BinOp:
				// comparison of a data element with something
				switch x.Op {
				case token.EQL, token.NEQ:
					for _, op := range []ssa.Value{x.X, x.Y} {
						if u, ok := op.(*ssa.UnOp); ok && u.Op == token.MUL {
							if ia, ok := u.X.(*ssa.IndexAddr); ok && s.dataDerived(ia.X, 0) {
								out[b] = true
							}
						}
					}
				}
			}
		}
	}
	// loop headers of loops containing a search block
	for sb := range out {
		for _, h := range fn.Blocks {
			if h != sb && h.Dominates(sb) && reachableFrom(sb)[h] {
				out[h] = true
			}
		}
	}
	return out
}

// containsSearchAny: a closure body contains any search call (closures see data through free variables).
func (s *splitFn) containsSearchAny(fn *ssa.Function) map[*ssa.BasicBlock]bool {
	out := map[*ssa.BasicBlock]bool{}
	for _, b := range fn.Blocks {
		for _, in := range b.Instrs {
			if call, ok := in.(ssa.CallInstruction); ok {
				if f := call.Common().StaticCallee(); f != nil && searchCallees[f.String()] {
					out[b] = true
				}
			}
		}
	}
	return out
}

type retClass struct {
	ret  *ssa.Return
	kind string // needmore, token, skip
	adv  ssa.Value
}

func classifyReturns(fn *ssa.Function) []retClass {
	var out []retClass
	for _, b := range fn.Blocks {
		if len(b.Instrs) == 0 {
			continue
		}
		ret, ok := b.Instrs[len(b.Instrs)-1].(*ssa.Return)
		if !ok || len(ret.Results) != 3 {
			continue
		}
		rr := retResults(ret)
		k := "skip"
		isZero := func(v ssa.Value) bool {
			c, ok := v.(*ssa.Const)
			return ok && c.Value != nil && c.Value.ExactString() == "0"
		}
		switch {
		case isNilConst(rr[1]) && isZero(rr[0]):
			k = "needmore"
		case !isNilConst(rr[1]):
			k = "token"
		}
		out = append(out, retClass{ret, k, rr[0]})
	}
	return out
}

func ruleSplit(c *Ctx) {
	var fns []*splitFn
	for _, fn := range c.srcFuncs("interp") {
		if !isSplitFunc(fn) {
			continue
		}
		// methods with the signature of a bufio.SplitFunc, and function literals with it (a splitter written as a
		// closure over its state); plain package functions with that signature are helpers
		if fn.Signature.Recv() == nil && fn.Parent() == nil {
			continue
		}
		s := &splitFn{fn: fn}
		for _, p := range fn.Params {
			switch p.Name() {
			case "data":
				s.data = p
			case "atEOF":
				s.atEOF = p
			}
		}
		if len(fn.Params) == 3 {
			s.recv = fn.Params[0]
			s.data, s.atEOF = fn.Params[1], fn.Params[2]
		}
		// spill cell of data
		if s.data != nil {
			for _, r := range *s.data.Referrers() {
				if st, ok := r.(*ssa.Store); ok && st.Val == s.data {
					if a, ok := st.Addr.(*ssa.Alloc); ok {
						s.dataCel = a
					}
				}
			}
		}
		fns = append(fns, s)
	}
	c.atLeast("record splitters (bufio.SplitFunc methods)", len(fns), 4)
	nLeftmost := 0
	for _, s := range fns {
		fn := s.fn
		name := strings.TrimSuffix(strings.TrimPrefix(fnKey(fn), "("), ")")
		name = strings.NewReplacer("(", "", ")", "", "*", "").Replace(fnKey(fn))
		rets := classifyReturns(fn)
		var needMore, tokens []retClass
		for _, r := range rets {
			switch r.kind {
			case "needmore":
				needMore = append(needMore, r)
			case "token":
				tokens = append(tokens, r)
			}
		}
		if len(needMore) == 0 || len(tokens) == 0 {
			c.undecided("shape:"+name, fn.Pos(), "%s: %d need-more returns and %d record returns recognised; expected at least one of each", name, len(needMore), len(tokens))
			continue
		}

		// ---- STATE
		type effect struct {
			in   ssa.Instruction
			what string
		}
		var effects []effect
		allInstrs(fn, func(in ssa.Instruction) {
			switch x := in.(type) {
			case *ssa.Store:
				if f, recv := fieldOfAddr(x.Addr); f != nil && recv == ssa.Value(s.recv) && s.recv != nil {
					if _, isPtr := s.recv.Type().(*types.Pointer); isPtr && splitScratch[f.Name()] == "" {
						effects = append(effects, effect{in, "store to persistent field " + f.Name()})
					}
				}
				// store through a pointer held in a receiver field
				if f, base := loadedField(x.Addr); f != nil {
					if _, isPtr := f.Type().(*types.Pointer); isPtr && s.isRecvDerived(base) {
						effects = append(effects, effect{in, "write through pointer field " + f.Name() + " into interpreter state"})
					}
				}
			case ssa.CallInstruction:
				cc := x.Common()
				if !cc.IsInvoke() && cc.StaticCallee() == nil {
					if f, base := loadedField(cc.Value); f != nil && s.isRecvDerived(base) {
						effects = append(effects, effect{in, "callback " + f.Name()})
					}
				}
			}
		})
		nState := 0
		for _, e := range effects {
			nState++
			bad := ""
			for _, nm := range needMore {
				eb, rb := e.in.Block(), nm.ret.Block()
				if eb == rb || reachableFromStrict(eb)[rb] {
					bad = c.relPos(nm.ret.Pos())
				}
			}
			key := fmt.Sprintf("state:%s:%s", name, e.what)
			if bad == "" {
				c.ok(key, e.in.Pos(), "%s happens only on paths that end by delivering a record or skipping consumed bytes", e.what)
			} else {
				c.bad(key, e.in.Pos(), "%s: %s happens on a path that can still end in the `need more data` return at %s; the Scanner then calls again with the same bytes plus more, and the effect is applied twice or at the wrong time (a partial first read changes the result)", name, e.what, bad)
			}
		}
		c.stat("persistent-effects", nState)

		// ---- FRESH: a slice written through a pointer field into interpreter state (the fields of the record just
		// scanned) is newly allocated for each record: it must not be built on the slice the pointer held before,
		// because the interpreter may still hold that one as the current record's fields
		allInstrs(fn, func(in ssa.Instruction) {
			st, ok := in.(*ssa.Store)
			if !ok {
				return
			}
			f, base := loadedField(st.Addr)
			if f == nil || !s.isRecvDerived(base) {
				return
			}
			if _, isPtr := f.Type().(*types.Pointer); !isPtr {
				return
			}
			if _, isSl := st.Val.Type().Underlying().(*types.Slice); !isSl {
				return
			}
			reuse := false
			seen := map[ssa.Value]bool{}
			var walk func(v ssa.Value)
			walk = func(v ssa.Value) {
				if seen[v] {
					return
				}
				seen[v] = true
				switch x := v.(type) {
				case *ssa.Phi:
					for _, e := range x.Edges {
						walk(e)
					}
				case *ssa.Slice:
					walk(x.X)
				case *ssa.Call:
					if b, ok := x.Call.Value.(*ssa.Builtin); ok && b.Name() == "append" && len(x.Call.Args) > 0 {
						walk(x.Call.Args[0])
					}
				case *ssa.UnOp:
					if x.Op == token.MUL {
						if f2, base2 := loadedField(x.X); f2 == f && s.isRecvDerived(base2) {
							reuse = true
						}
					}
				}
			}
			walk(st.Val)
			c.check(!reuse, "fresh:"+name+":"+f.Name(), in.Pos(), "the slice handed to the interpreter through "+f.Name()+" is allocated for this record", name+" builds the slice it stores through "+f.Name()+" on the slice that was there before (reusing its backing array): the interpreter may still hold the previous slice as the current record's fields, which are then overwritten by the next record scanned (for example by getline var)")
		})

		// ---- BOM-COMMIT: a splitter that strips a byte order mark while a flag of its own is still false must set
		// that flag on every path that consumes input (returns a non-zero advance): otherwise a later chunk that
		// happens to start with the same three bytes loses them, so the records depend on how the bytes arrived
		{
			var flag *types.Var
			for _, b := range fn.Blocks {
				for _, in := range b.Instrs {
					// the test for the first byte of the mark (0xEF), here or in a helper called from here
					if !isConstCmp(in, "239") {
						call, ok := in.(*ssa.Call)
						if !ok {
							continue
						}
						g := call.Call.StaticCallee()
						if g == nil || g.Pkg != fn.Pkg || !containsConstCmp(g, "239", map[*ssa.Function]bool{}) {
							continue
						}
					}
					// a dominating test of a bool field of the receiver
					for _, d := range fn.Blocks {
						if len(d.Instrs) == 0 || !d.Dominates(b) {
							continue
						}
						if iff, ok := d.Instrs[len(d.Instrs)-1].(*ssa.If); ok {
							cond := iff.Cond
							if u, ok := cond.(*ssa.UnOp); ok && u.Op == token.NOT {
								cond = u.X
							}
							if f, recv := loadedField(cond); f != nil && recv == ssa.Value(s.recv) {
								if bt, ok := f.Type().Underlying().(*types.Basic); ok && bt.Kind() == types.Bool {
									flag = f
								}
							}
						}
					}
				}
			}
			if flag != nil {
				setBlocks := map[*ssa.BasicBlock]bool{}
				allInstrs(fn, func(in ssa.Instruction) {
					if st, ok := in.(*ssa.Store); ok {
						if f, recv := fieldOfAddr(st.Addr); f == flag && recv == ssa.Value(s.recv) {
							if k, ok := st.Val.(*ssa.Const); ok && k.Value != nil && k.Value.String() == "true" {
								setBlocks[in.Block()] = true
							}
						}
					}
				})
				// blocks reachable from the entry without passing a block that sets the flag
				unset := map[*ssa.BasicBlock]bool{}
				var walk func(b *ssa.BasicBlock)
				walk = func(b *ssa.BasicBlock) {
					if unset[b] || setBlocks[b] {
						return
					}
					unset[b] = true
					for _, su := range b.Succs {
						walk(su)
					}
				}
				walk(fn.Blocks[0])
				nCons, bad := 0, token.NoPos
				for _, r := range rets {
					if k, ok := r.adv.(*ssa.Const); ok && k.Value != nil && k.Value.ExactString() == "0" {
						continue
					}
					nCons++
					if unset[r.ret.Block()] {
						bad = posOr(r.ret.Pos(), fn.Pos())
					}
				}
				c.check(bad == token.NoPos && nCons > 0, "bom-commit:"+name, bad, "every return that consumes input has set "+flag.Name()+" first", name+" can consume input (return a non-zero advance) without having set "+flag.Name()+": when the rest of the input arrives in a later read and starts with EF BB BF, those bytes are stripped from the middle of the data, so the records depend on how the bytes arrived")
			}
		}

		// ---- EOF (must pass through the search)
		search := s.containsSearch(fn, map[*ssa.Function]bool{})
		for i, t := range tokens {
			key := fmt.Sprintf("eof:%s:record-return#%d", name, i+1)
			if len(search) == 0 {
				c.undecided(key, t.ret.Pos(), "%s: no terminator search recognised", name)
				continue
			}
			// BFS from entry avoiding search blocks
			seen := map[*ssa.BasicBlock]bool{}
			var walk func(b *ssa.BasicBlock)
			walk = func(b *ssa.BasicBlock) {
				if seen[b] || search[b] {
					return
				}
				seen[b] = true
				for _, su := range b.Succs {
					walk(su)
				}
			}
			walk(fn.Blocks[0])
			if seen[t.ret.Block()] {
				c.bad(key, t.ret.Pos(), "%s delivers a record on a path that never runs the terminator search (e.g. merely because atEOF is set): buffered input that still contains terminators is returned as one record, so the records depend on how the bytes arrived", name)
			} else {
				c.ok(key, t.ret.Pos(), "record is delivered only after the terminator search ran")
			}
		}

		// ---- MUNCH
		for i, t := range tokens {
			if s.underAtEOF(t.ret.Block()) {
				continue
			}
			munch := ""
			a := t.adv
			if u, ok := a.(*ssa.UnOp); ok && u.Op == token.MUL {
				if ia, ok := u.X.(*ssa.IndexAddr); ok {
					if call, ok := ia.X.(*ssa.Call); ok && call.Call.StaticCallee() != nil && strings.HasPrefix(call.Call.StaticCallee().Name(), "Find") {
						munch = "end of a leftmost-longest regexp match"
					}
				}
			}
			if ph := loopCounterOverData(s, a); ph != nil {
				munch = "index advanced by a loop over a character class"
			}
			if munch == "" {
				continue
			}
			if strings.HasSuffix(munch, "regexp match") {
				// (LEFTMOST) comparing the END of the match with len(data) settles whether this match can still grow;
				// it does not settle whether it is the match at all: the regexp package returns the leftmost match
				// in the bytes it is given, and an alternative that starts EARLIER (or is preferred at the same
				// start) but needs bytes that have not arrived yet is invisible to it. Nothing the Find* result
				// offers can rule that out, so a record delivered from such a match before end of input depends on
				// where the reads fell.
				// keyed by role, not by name: the first splitter that does this is the recorded one wherever it lives
				nLeftmost++
				lk := "leftmost:regexp-record-splitter"
				if nLeftmost > 1 {
					lk += fmt.Sprintf("#%d", nLeftmost)
				}
				c.bad(lk, t.ret.Pos(), "%s commits the leftmost regexp match found in the bytes read so far while more input may follow: with an RS whose alternatives overlap (RS=\"abcd|b\"), a longer alternative that starts earlier and is still incomplete at the end of the buffered data is overtaken by a shorter one inside it, so the records and RT depend on read boundaries (`xabc`+`dy` gives xa/RT=b, unchunked gives x/RT=abcd)", name)
			}
			key := fmt.Sprintf("munch:%s:record-return#%d", name, i+1)
			ak := srcKey(a, 0)
			found := false
			extraCond := token.NoPos
			hasExtra := false
			for _, b := range fn.Blocks {
				if len(b.Instrs) == 0 || !b.Dominates(t.ret.Block()) {
					continue
				}
				ifi, ok := b.Instrs[len(b.Instrs)-1].(*ssa.If)
				if !ok {
					continue
				}
				if reachableFromStrict(b)[b] {
					continue // the loop's own continuation test
				}
				if condComparesWithLen(ifi.Cond, ak, s, 0) {
					// a need-more return must be reachable from this test without passing the commit
					for _, nm := range needMore {
						fromB := reachableAvoiding(b, t.ret.Block())
						if fromB[nm.ret.Block()] {
							found = true
							// between the comparison and the need-more return nothing but atEOF may decide:
							// any other condition makes the splitter commit a terminator that touches the end
							// of the data in some states (a full buffer, say) although more input may follow
							for x := range fromB {
								if x == b || len(x.Instrs) == 0 || !reachableFrom(x)[nm.ret.Block()] {
									continue
								}
								xi, ok := x.Instrs[len(x.Instrs)-1].(*ssa.If)
								if !ok || !xi.Block().Dominates(nm.ret.Block()) && !reachableFrom(b)[x] {
									continue
								}
								cond := xi.Cond
								for {
									if u, ok := cond.(*ssa.UnOp); ok && u.Op == token.NOT {
										cond = u.X
										continue
									}
									break
								}
								if p, ok := cond.(*ssa.Parameter); ok && p.Name() == "atEOF" {
									continue
								}
								if condComparesWithLen(xi.Cond, ak, s, 0) {
									continue
								}
								// only conditions that lie strictly between the comparison and the need-more return count
								if !b.Dominates(x) || !x.Dominates(nm.ret.Block()) {
									continue
								}
								hasExtra = true
								extraCond = xi.Cond.Pos()
							}
						}
					}
				}
			}
			if found && hasExtra {
				c.bad(key, extraCond, "%s: whether the splitter waits for more data when the %s reaches len(data) also depends on a condition other than atEOF: in the states where that condition fails (for example a full buffer) a terminator that may still grow is committed, so RT and the next record depend on read boundaries", name, munch)
			} else if found {
				c.ok(key, t.ret.Pos(), "%s is compared with len(data) before it is committed, and the splitter can ask for more data from there", munch)
			} else {
				c.bad(key, t.ret.Pos(), "%s: the record's terminator is the %s, but it is committed without comparing its end with len(data): when the match touches the end of the buffered data and more input follows, the terminator (and RT) is cut short, so records depend on read boundaries", name, munch)
			}
		}

		// ---- COORD
		s.coord(c, name)

		// ---- NORMALISE: record returns of one splitter post-process the record the same way
		withCR, withoutCR := 0, 0
		for _, t := range tokens {
			if throughCall(retResults(t.ret)[1], "dropCR", 0) {
				withCR++
			} else {
				withoutCR++
			}
		}
		if withCR > 0 {
			c.check(withoutCR == 0, "normalise:"+name+":dropCR", fn.Pos(), "every record return strips a trailing CR", name+": some record returns strip a trailing carriage return and others (e.g. the final unterminated record) do not: the same line yields a different record depending on whether it is the last one")
		}
	}
	// ---- CLASS: character-class loops over data use one class per splitter (AST level); the loops may sit in the
	// splitter itself or in helpers it calls, and the slice may have any name
	sinfo := c.pkg("interp").TypesInfo
	classLoops := func(fd *ast.FuncDecl, classes map[string]int, first *token.Pos) {
		ast.Inspect(fd.Body, func(n ast.Node) bool {
			fs, ok := n.(*ast.ForStmt)
			if !ok || fs.Cond == nil || fs.Init != nil {
				return true
			}
			be, ok := fs.Cond.(*ast.BinaryExpr)
			if !ok || be.Op != token.LAND {
				return true
			}
			// i < len(X) && (class over X[i])
			lx, ok := be.X.(*ast.BinaryExpr)
			if !ok || lx.Op != token.LSS {
				return true
			}
			lc, ok := lx.Y.(*ast.CallExpr)
			if !ok || !isIdent(lc.Fun, "len") || len(lc.Args) != 1 {
				return true
			}
			name := types.ExprString(lc.Args[0])
			if !strings.Contains(types.ExprString(be.Y), name+"[") {
				return true
			}
			if len(fs.Body.List) != 1 {
				return true
			}
			if _, ok := fs.Body.List[0].(*ast.IncDecStmt); !ok {
				return true
			}
			cls := strings.ReplaceAll(types.ExprString(be.Y), name+"[", "D[")
			cls = strings.ReplaceAll(cls, "["+types.ExprString(lx.X)+"]", "[i]")
			classes[cls]++
			if *first == token.NoPos {
				*first = fs.Pos()
			}
			return true
		})
	}
	for _, fd := range c.allFuncDecls("interp") {
		if fd.Body == nil || fd.Recv == nil {
			continue
		}
		if sf := c.ssaFunc("interp", declName(fd)); sf == nil || !isSplitFunc(sf) {
			continue
		}
		classes := map[string]int{}
		var first token.Pos
		classLoops(fd, classes, &first)
		seenH := map[string]bool{}
		ast.Inspect(fd.Body, func(n ast.Node) bool {
			if call, ok := n.(*ast.CallExpr); ok {
				if f := calleeOf(sinfo, call); f != nil && f.Pkg() == c.pkg("interp").Types && !seenH[f.Name()] {
					seenH[f.Name()] = true
					name := f.Name()
					if sig := f.Type().(*types.Signature); sig.Recv() != nil {
						if nm := named(deref(sig.Recv().Type())); nm != nil {
							name = nm.Obj().Name() + "." + name
						}
					}
					if hd := c.funcDecl("interp", name); hd != nil && hd.Body != nil {
						classLoops(hd, classes, &first)
					}
				}
			}
			return true
		})
		nm := declName(fd)
		if len(classes) == 0 {
			c.trivial("class:"+nm, fd.Pos(), "no character-class skipping loop over the data in %s or its helpers", nm)
			continue
		}
		var ks []string
		for k := range classes {
			ks = append(ks, k)
		}
		sort.Strings(ks)
		c.check(len(classes) == 1, "class:"+nm, posOr(first, fd.Pos()), fmt.Sprintf("all %d character-class skipping loops of %s use the class %s", classes[ks[0]], nm, ks[0]), fmt.Sprintf("%s skips over different character classes in different places %v: bytes skipped when they lead a buffer are kept when they follow a terminator (or vice versa), so records depend on where reads end", nm, ks))
	}
}

// throughCall: v is (possibly via phi/slice) the result of a call to the named module function.
func throughCall(v ssa.Value, name string, depth int) bool {
	if depth > 5 || v == nil {
		return false
	}
	switch x := v.(type) {
	case *ssa.Call:
		if f := x.Call.StaticCallee(); f != nil {
			if f.Name() == name {
				return true
			}
			for _, a := range x.Call.Args {
				if throughCall(a, name, depth+1) {
					return true
				}
			}
		}
	case *ssa.Phi:
		for _, e := range x.Edges {
			if throughCall(e, name, depth+1) {
				return true
			}
		}
	case *ssa.Slice:
		return throughCall(x.X, name, depth+1)
	case *ssa.UnOp:
		if a, ok := x.X.(*ssa.Alloc); ok && x.Op == token.MUL {
			for _, r := range *a.Referrers() {
				if st, ok := r.(*ssa.Store); ok && st.Addr == ssa.Value(a) && throughCall(st.Val, name, depth+1) {
					return true
				}
			}
		}
	}
	return false
}

func reachableFromStrict(b *ssa.BasicBlock) map[*ssa.BasicBlock]bool {
	seen := map[*ssa.BasicBlock]bool{}
	var walk func(x *ssa.BasicBlock)
	walk = func(x *ssa.BasicBlock) {
		for _, s := range x.Succs {
			if !seen[s] {
				seen[s] = true
				walk(s)
			}
		}
	}
	walk(b)
	return seen
}

func (s *splitFn) isRecvDerived(v ssa.Value) bool {
	if s.recv == nil {
		return false
	}
	if v == ssa.Value(s.recv) {
		return true
	}
	// value receiver spilled to a local: t0 = local T (s); *t0 = s
	if a, ok := v.(*ssa.Alloc); ok {
		for _, r := range *a.Referrers() {
			if st, ok := r.(*ssa.Store); ok && st.Addr == a && st.Val == ssa.Value(s.recv) {
				return true
			}
		}
	}
	return false
}

// underAtEOF: block is reachable only through the true edge of a test of atEOF.
func (s *splitFn) underAtEOF(blk *ssa.BasicBlock) bool {
	for _, b := range s.fn.Blocks {
		if len(b.Instrs) == 0 || !b.Dominates(blk) {
			continue
		}
		ifi, ok := b.Instrs[len(b.Instrs)-1].(*ssa.If)
		if !ok {
			continue
		}
		isAtEOF := ifi.Cond == ssa.Value(s.atEOF)
		if u, ok := ifi.Cond.(*ssa.UnOp); ok && u.Op == token.MUL {
			if a, ok := u.X.(*ssa.Alloc); ok {
				for _, r := range *a.Referrers() {
					if st, ok := r.(*ssa.Store); ok && st.Val == ssa.Value(s.atEOF) {
						isAtEOF = true
					}
				}
			}
		}
		if isAtEOF && !reachableAvoiding(b.Succs[1], b)[blk] {
			return true
		}
	}
	return false
}

// loopCounterOverData: a is a phi incremented by 1 in a loop whose test compares it with len(data).
func loopCounterOverData(s *splitFn, a ssa.Value) *ssa.Phi {
	ph, ok := a.(*ssa.Phi)
	if !ok {
		return nil
	}
	inc := false
	for _, e := range ph.Edges {
		if bo, ok := e.(*ssa.BinOp); ok && bo.Op == token.ADD {
			if k, ok := bo.Y.(*ssa.Const); ok && k.Value != nil && k.Value.ExactString() == "1" {
				inc = true
			}
		}
		if p2, ok := e.(*ssa.Phi); ok && p2 != ph {
			if loopCounterOverData(s, p2) != nil {
				inc = true
			}
		}
	}
	if !inc {
		return nil
	}
	return ph
}

func condComparesWithLen(cond ssa.Value, key string, s *splitFn, depth int) bool {
	if depth > 3 {
		return false
	}
	bo, ok := cond.(*ssa.BinOp)
	if !ok {
		if u, ok := cond.(*ssa.UnOp); ok && u.Op == token.NOT {
			return condComparesWithLen(u.X, key, s, depth+1)
		}
		return false
	}
	isLen := func(v ssa.Value) bool {
		call, ok := v.(*ssa.Call)
		if !ok {
			return false
		}
		b, ok := call.Call.Value.(*ssa.Builtin)
		return ok && b.Name() == "len" && len(call.Call.Args) == 1 && s.dataDerived(call.Call.Args[0], 0)
	}
	switch bo.Op {
	case token.EQL, token.NEQ, token.LSS, token.LEQ, token.GTR, token.GEQ:
		if (srcKey(bo.X, 0) == key && isLen(bo.Y)) || (srcKey(bo.Y, 0) == key && isLen(bo.X)) {
			return true
		}
	}
	return false
}

// coord: coordinate-system checks.
func (s *splitFn) coord(c *Ctx, name string) {
	fn := s.fn
	// the named result `advance`
	var advCell *ssa.Alloc
	for _, b := range fn.Blocks {
		for _, in := range b.Instrs {
			if a, ok := in.(*ssa.Alloc); ok && a.Comment == "advance" {
				advCell = a
			}
		}
	}
	// when `advance` is not captured by a closure it has no cell: the slice expressions whose bounds mention the named
	// result are then found on the syntax tree and matched to their instructions by position
	astAdv := map[token.Pos][2]bool{}
	if fd, ok := fn.Syntax().(*ast.FuncDecl); ok && fd.Type.Results != nil && c.pkg("interp") != nil {
		info := c.pkg("interp").TypesInfo
		var advObj types.Object
		for _, f := range fd.Type.Results.List {
			for _, nm := range f.Names {
				if nm.Name == "advance" {
					advObj = info.Defs[nm]
				}
			}
		}
		mentions := func(e ast.Expr) bool {
			found := false
			if e == nil || advObj == nil {
				return false
			}
			ast.Inspect(e, func(n ast.Node) bool {
				if id, ok := n.(*ast.Ident); ok && info.Uses[id] == advObj {
					found = true
				}
				return true
			})
			return found
		}
		ast.Inspect(fd, func(n ast.Node) bool {
			if se, ok := n.(*ast.SliceExpr); ok {
				astAdv[se.Lbrack] = [2]bool{mentions(se.Low), mentions(se.High)}
			}
			return true
		})
	}
	advUse := func(v ssa.Value, sl *ssa.Slice, high bool) bool {
		if v == nil {
			return false
		}
		if u, ok := v.(*ssa.UnOp); ok && u.Op == token.MUL && advCell != nil && u.X == ssa.Value(advCell) {
			return true
		}
		if advCell == nil {
			if m, ok := astAdv[sl.Pos()]; ok {
				if high {
					return m[1]
				}
				return m[0]
			}
		}
		return false
	}
	n := 0
	allInstrs(fn, func(in ssa.Instruction) {
		sl, ok := in.(*ssa.Slice)
		if !ok {
			return
		}
		usesAdv := advUse(sl.Low, sl, false) || advUse(sl.High, sl, true)
		if usesAdv {
			n++
			key := "coord:" + name + ":slice-by-advance"
			// X must be the original data: the parameter, or a load of its cell that no re-slicing store can reach
			orig, why := s.isOriginalData(sl.X, 0)
			if orig {
				c.ok(key, sl.Pos(), "`advance` (bytes of the data parameter) indexes the original data slice")
			} else {
				c.bad(key, sl.Pos(), "%s slices %s with `advance`, which counts bytes of the data parameter, but the sliced value %s: the record text is taken from the wrong offsets (it can include bytes of the next record or miss its own)", name, sl.X.Name(), why)
			}
		}
		// len(T) of a slice with another origin used as an offset
		if call, ok := sl.Low.(*ssa.Call); ok {
			if b, ok := call.Call.Value.(*ssa.Builtin); ok && b.Name() == "len" && len(call.Call.Args) == 1 {
				tRoot, tLow := sliceBase(call.Call.Args[0], 0)
				xRoot, xLow := sliceBase(sl.X, 0)
				if tRoot != "" && tRoot == xRoot {
					n++
					key := "coord:" + name + ":len-as-offset"
					if tLow == xLow {
						c.ok(key, sl.Pos(), "length and sliced value share the origin %s", xLow)
					} else {
						c.bad(key, sl.Pos(), "%s uses len(x) as an offset into a slice with origin %s, but x starts at offset %s of the same buffer: the result is shifted by that offset (e.g. RT becomes a tail of the record when leading newlines were skipped)", name, xLow, tLow)
					}
				}
			}
		}
	})
	c.stat("coordinate-sites", n)

	// the record-start offset (Low of the slice-by-advance) is fixed once parsing of the record has begun
	var lowCell *ssa.Alloc
	allInstrs(fn, func(in ssa.Instruction) {
		if sl, ok := in.(*ssa.Slice); ok {
			if advUse(sl.High, sl, true) {
				if l, ok := sl.Low.(*ssa.UnOp); ok {
					if a, ok := l.X.(*ssa.Alloc); ok {
						lowCell = a
					}
				}
			}
		}
	})
	if lowCell == nil {
		// the start offset is a plain SSA value: it is fixed where it is defined; that definition must precede field parsing
		allInstrs(fn, func(in ssa.Instruction) {
			sl, ok := in.(*ssa.Slice)
			if !ok || sl.Low == nil {
				return
			}
			if !advUse(sl.High, sl, true) {
				return
			}
			def, ok := sl.Low.(ssa.Instruction)
			if !ok {
				return
			}
			var startBlk *ssa.BasicBlock
			allInstrs(fn, func(i2 ssa.Instruction) {
				if st, ok := i2.(*ssa.Store); ok {
					if f, _ := fieldOfAddr(st.Addr); f != nil && splitScratch[f.Name()] != "" {
						if s2, ok := st.Val.(*ssa.Slice); ok && s2.High != nil {
							if k, ok := s2.High.(*ssa.Const); ok && k.Value != nil && k.Value.ExactString() == "0" && startBlk == nil {
								startBlk = i2.Block()
							}
						}
					}
				}
			})
			if startBlk == nil {
				return
			}
			c.check(!reachableFromStrict(startBlk)[def.Block()] || def.Block() == startBlk, "coord:"+name+":record-start-fixed", sl.Pos(), "the record-start offset is fixed before parsing of the record's fields begins", name+": the offset marking the start of the record text is computed after parsing of the record has begun")
		})
		return
	}
	// marker: the block that resets the scratch record buffer to length 0 (start of field parsing)
	var startBlk *ssa.BasicBlock
	allInstrs(fn, func(in ssa.Instruction) {
		if st, ok := in.(*ssa.Store); ok {
			if f, _ := fieldOfAddr(st.Addr); f != nil && splitScratch[f.Name()] != "" {
				if sl, ok := st.Val.(*ssa.Slice); ok && sl.High != nil {
					if k, ok := sl.High.(*ssa.Const); ok && k.Value != nil && k.Value.ExactString() == "0" && startBlk == nil {
						startBlk = in.Block()
					}
				}
			}
		}
	})
	if startBlk == nil {
		c.undecided("coord:"+name+":record-start-marker", fn.Pos(), "start of field parsing (scratch buffer reset) not found")
		return
	}
	// sites that modify the start offset: direct stores, or calls of closures that store to it
	closureStores := map[*ssa.Function]bool{}
	for _, r := range *lowCell.Referrers() {
		if mc, ok := r.(*ssa.MakeClosure); ok {
			cf := mc.Fn.(*ssa.Function)
			for i, b := range mc.Bindings {
				if b == ssa.Value(lowCell) && i < len(cf.FreeVars) {
					fv := cf.FreeVars[i]
					for _, r2 := range *fv.Referrers() {
						if st, ok := r2.(*ssa.Store); ok && st.Addr == ssa.Value(fv) {
							closureStores[cf] = true
						}
					}
				}
			}
		}
	}
	late := token.NoPos
	after := reachableFromStrict(startBlk)
	allInstrs(fn, func(in ssa.Instruction) {
		modifies := false
		if st, ok := in.(*ssa.Store); ok && st.Addr == ssa.Value(lowCell) {
			if _, isConstInit := st.Val.(*ssa.Const); !isConstInit || true {
				modifies = true
			}
		}
		if call, ok := in.(ssa.CallInstruction); ok {
			cc := call.Common()
			if u, ok := cc.Value.(*ssa.UnOp); ok {
				if cell, ok := u.X.(*ssa.Alloc); ok {
					for _, r := range *cell.Referrers() {
						if st, ok := r.(*ssa.Store); ok {
							if mc, ok := st.Val.(*ssa.MakeClosure); ok && closureStores[mc.Fn.(*ssa.Function)] {
								modifies = true
							}
						}
					}
				}
			}
			if mc, ok := cc.Value.(*ssa.MakeClosure); ok && closureStores[mc.Fn.(*ssa.Function)] {
				modifies = true
			}
			if f := cc.StaticCallee(); f != nil && closureStores[f] {
				modifies = true
			}
		}
		if modifies && (after[in.Block()] || (in.Block() == startBlk && false)) {
			late = posOr(in.Pos(), fn.Pos())
		}
	})
	c.check(late == token.NoPos, "coord:"+name+":record-start-fixed", late, "the record-start offset is only advanced (skipped lines) before parsing of the record's fields begins", name+": the offset marking the start of the record text is advanced after parsing of the record has begun (e.g. while reading a continuation line of a quoted field): $0 then loses the beginning of its own record")
}

// isOriginalData: v is the data parameter as received (no re-slice can have been stored into its cell before the load).
func (s *splitFn) isOriginalData(v ssa.Value, depth int) (bool, string) {
	if depth > 4 {
		return false, "could not be traced to the data parameter"
	}
	switch x := v.(type) {
	case *ssa.Parameter:
		if x == s.data {
			return true, ""
		}
	case *ssa.UnOp:
		if x.Op != token.MUL {
			break
		}
		cell, ok := x.X.(*ssa.Alloc)
		if !ok {
			break
		}
		if cell == s.dataCel {
			// any other store to the cell that can reach this load?
			for _, r := range *cell.Referrers() {
				st, ok := r.(*ssa.Store)
				if !ok || st.Addr != ssa.Value(cell) || st.Val == ssa.Value(s.data) {
					continue
				}
				sb, lb := st.Block(), x.Block()
				before := sb == lb && instrIndex(sb, st) < instrIndex(lb, x)
				if before || (sb != lb && reachableFromStrict(sb)[lb]) {
					return false, "may already have been re-sliced (`data = data[k:]` at " + fmt.Sprint(s.fn.Prog.Fset.Position(st.Pos()).Line) + " precedes it)"
				}
			}
			return true, ""
		}
		// a local copy (origData := data): every store into it must itself be original data
		ok2 := true
		why := ""
		nst := 0
		for _, r := range *cell.Referrers() {
			if st, ok := r.(*ssa.Store); ok && st.Addr == ssa.Value(cell) {
				nst++
				o, w := s.isOriginalData(st.Val, depth+1)
				if !o {
					ok2, why = false, w
				}
			}
		}
		if nst > 0 {
			return ok2, why
		}
	}
	return false, "is not the data parameter"
}

func instrIndex(b *ssa.BasicBlock, in ssa.Instruction) int {
	for i, x := range b.Instrs {
		if x == in {
			return i
		}
	}
	return -1
}

// sliceBase: (root identity, low offset key) of a slice value.
func sliceBase(v ssa.Value, depth int) (string, string) {
	if depth > 6 {
		return "", ""
	}
	switch x := v.(type) {
	case *ssa.Parameter:
		return "param:" + x.Name(), "0"
	case *ssa.Slice:
		r, low := sliceBase(x.X, depth+1)
		if r == "" {
			return "", ""
		}
		if x.Low == nil {
			return r, low
		}
		if k, ok := x.Low.(*ssa.Const); ok && k.Value != nil && k.Value.ExactString() == "0" {
			return r, low
		}
		if low == "0" {
			return r, srcKey(x.Low, 0)
		}
		return r, low + "+" + srcKey(x.Low, 0)
	case *ssa.Call:
		// prefix-preserving helpers: func(b []byte) []byte returning b or b[:n]
		if f := x.Call.StaticCallee(); f != nil && len(x.Call.Args) == 1 && prefixPreserving(f) {
			return sliceBase(x.Call.Args[0], depth+1)
		}
	case *ssa.UnOp:
		if x.Op == token.MUL {
			if a, ok := x.X.(*ssa.Alloc); ok {
				// single-assignment local
				var val ssa.Value
				n := 0
				for _, r := range *a.Referrers() {
					if st, ok := r.(*ssa.Store); ok && st.Addr == ssa.Value(a) {
						n++
						val = st.Val
					}
				}
				if n == 1 {
					return sliceBase(val, depth+1)
				}
			}
		}
	case *ssa.Phi:
		r0, l0 := "", ""
		for i, e := range x.Edges {
			r, l := sliceBase(e, depth+1)
			if i == 0 {
				r0, l0 = r, l
			} else if r != r0 || l != l0 {
				return "", ""
			}
		}
		return r0, l0
	}
	return "", ""
}

// prefixPreserving: every return of f is its (only) parameter or parameter[:n].
func prefixPreserving(f *ssa.Function) bool {
	if len(f.Params) != 1 || f.Blocks == nil {
		return false
	}
	ok := true
	n := 0
	for _, b := range f.Blocks {
		if len(b.Instrs) == 0 {
			continue
		}
		ret, isRet := b.Instrs[len(b.Instrs)-1].(*ssa.Return)
		if !isRet || len(ret.Results) != 1 {
			continue
		}
		n++
		switch r := ret.Results[0].(type) {
		case *ssa.Parameter:
		case *ssa.Slice:
			if r.X != ssa.Value(f.Params[0]) || r.Low != nil {
				ok = false
			}
		default:
			ok = false
		}
	}
	return ok && n > 0
}

// isConstCmp reports whether in compares a value for equality with the integer constant k.
func isConstCmp(in ssa.Instruction, k string) bool {
	bo, ok := in.(*ssa.BinOp)
	if !ok || bo.Op != token.EQL {
		return false
	}
	for _, v := range []ssa.Value{bo.X, bo.Y} {
		if c, ok := v.(*ssa.Const); ok && c.Value != nil && c.Value.ExactString() == k {
			return true
		}
	}
	return false
}

// containsConstCmp reports whether fn, or a function of its package that it calls, compares a value with k.
func containsConstCmp(fn *ssa.Function, k string, seen map[*ssa.Function]bool) bool {
	if seen[fn] || len(seen) > 20 {
		return false
	}
	seen[fn] = true
	for _, b := range fn.Blocks {
		for _, in := range b.Instrs {
			if isConstCmp(in, k) {
				return true
			}
			if call, ok := in.(*ssa.Call); ok {
				if g := call.Call.StaticCallee(); g != nil && g.Pkg == fn.Pkg && containsConstCmp(g, k, seen) {
					return true
				}
			}
		}
	}
	return false
}

// comparesParam: the function compares the given parameter for (in)equality with something.
func comparesParam(fn *ssa.Function, prm *ssa.Parameter) bool {
	found := false
	allInstrs(fn, func(in ssa.Instruction) {
		if bo, ok := in.(*ssa.BinOp); ok && (bo.Op == token.EQL || bo.Op == token.NEQ) && (bo.X == ssa.Value(prm) || bo.Y == ssa.Value(prm)) {
			found = true
		}
	})
	return found
}
