package main

import (
	"go/ast"
	"go/token"
	"go/types"
	"strconv"
	"strings"
)

// Semantic sibling predicates (part of R-RECSTATE, C02/C06): the place that *uses* a compiled separator regex
// and the place that *compiles* it must agree on the separator values for which a regex exists.
//
// Instead of comparing the two conditions as text, both sides are evaluated on representatives of every
// class of separator value (newline, empty, one byte, one invalid byte, one multi-byte character, several
// characters, a regex): for each representative, if the use site can be reached (its enclosing if/else/
// switch conditions hold or cannot be decided), the assignment of that separator must definitely store a
// compiled regex. Conditions are found by walking out from the use/store through the enclosing statements,
// locals that copy the separator are followed, and a use inside a helper is traced to the helper's call
// sites - so the verdict does not depend on how the code is laid out.

type sepSpec struct {
	name      string   // RS / FS
	specConst string   // ast.V_RS
	textField string   // recordSep
	savedText []string // other fields holding the same text when it is used
	reField   []string // fields holding the compiled form
	reps      []string
}

func semanticSiblingPredicates(c *Ctx) {
	ip := c.pkg("interp")
	if ip == nil {
		return
	}
	info := ip.TypesInfo
	specs := []sepSpec{
		{"RS", "V_RS", "recordSep", nil, []string{"recordSepRegex"}, []string{"\n", "", "x", "\xff", "é", "ab", "é+", "\n\n+"}},
		{"FS", "V_FS", "fieldSep", []string{"savedFieldSep"}, []string{"fieldSepRegex", "savedFieldSepRegex"}, []string{" ", "", ",", "\xff", "é", "ab", "[ ]+", "::"}},
	}
	defaultMode := int64(0)
	if o, ok := ip.Types.Scope().Lookup("DefaultMode").(*types.Const); ok {
		if v := constToCV(o.Val()); v.k == cvInt {
			defaultMode = v.i
		}
	}
	for _, sp := range specs {
		// ---- use sites: method calls on (or the address of) a compiled-form field
		type useSite struct {
			fd    *ast.FuncDecl
			node  ast.Node
			conds []pathCond
			recv  string
		}
		var uses []useSite
		for _, fd := range c.allFuncDecls("interp") {
			if fd.Body == nil || fd.Recv == nil || len(fd.Recv.List[0].Names) == 0 {
				continue
			}
			recv := fd.Recv.List[0].Names[0].Name
			file := fileOf(c, "interp", fd)
			ast.Inspect(fd.Body, func(n ast.Node) bool {
				se, ok := n.(*ast.SelectorExpr)
				if !ok || !isIdent(se.X, recv) {
					return true
				}
				isRe := false
				for _, f := range sp.reField {
					if se.Sel.Name == f {
						isRe = true
					}
				}
				if !isRe {
					return true
				}
				// only uses that dereference or hand out the regex: method call receiver, or &p.field
				path := enclosing(file, se)
				if len(path) < 2 {
					return true
				}
				switch par := path[1].(type) {
				case *ast.SelectorExpr: // p.re.Method
					if len(path) >= 3 {
						if call, ok := path[2].(*ast.CallExpr); ok && call.Fun == ast.Expr(par) && par.Sel.Name != "Longest" {
							uses = append(uses, useSite{fd, se, pathConds(file, se), recv})
						}
					}
				case *ast.UnaryExpr: // &p.re handed to a splitter
					if par.Op == token.AND {
						uses = append(uses, useSite{fd, se, pathConds(file, se), recv})
					}
				case *ast.CallExpr: // p.re passed to a function that matches with it
					for _, a := range par.Args {
						if a == ast.Expr(se) {
							uses = append(uses, useSite{fd, se, pathConds(file, se), recv})
						}
					}
				}
				return true
			})
		}
		// a use inside a helper without conditions of its own: take the conditions at its call sites
		var expanded []useSite
		for _, u := range uses {
			if len(u.conds) > 0 {
				expanded = append(expanded, u)
				continue
			}
			found := false
			for _, fd := range c.allFuncDecls("interp") {
				if fd.Body == nil || fd.Recv == nil || len(fd.Recv.List[0].Names) == 0 {
					continue
				}
				file := fileOf(c, "interp", fd)
				ast.Inspect(fd.Body, func(n ast.Node) bool {
					call, ok := n.(*ast.CallExpr)
					if !ok {
						return true
					}
					var id *ast.Ident
					switch f := call.Fun.(type) {
					case *ast.SelectorExpr:
						id = f.Sel
					case *ast.Ident:
						id = f
					}
					if id == nil {
						return true
					}
					if fn, ok := info.Uses[id].(*types.Func); ok && fn == info.Defs[u.fd.Name] {
						expanded = append(expanded, useSite{fd, call, pathConds(file, call), fd.Recv.List[0].Names[0].Name})
						found = true
					}
					return true
				})
			}
			if !found {
				expanded = append(expanded, u)
			}
		}
		// ---- the assignment clause
		var clause *ast.CaseClause
		var clauseBody *ast.BlockStmt
		var newNames []string
		var clauseFd *ast.FuncDecl
		for _, fd := range c.allFuncDecls("interp") {
			if fd.Body == nil {
				continue
			}
			ast.Inspect(fd.Body, func(n ast.Node) bool {
				cc, ok := n.(*ast.CaseClause)
				if !ok || len(cc.List) != 1 || selName(cc.List[0]) != sp.specConst {
					return true
				}
				stores := false
				ast.Inspect(cc, func(m ast.Node) bool {
					if as, ok := m.(*ast.AssignStmt); ok {
						for _, l := range as.Lhs {
							if se, ok := l.(*ast.SelectorExpr); ok && se.Sel.Name == sp.reField[0] {
								stores = true
							}
						}
					}
					return true
				})
				if stores {
					clause, clauseFd = cc, fd
					return true
				}
				// the clause hands the new value to a setter method of the interpreter that stores the compiled form:
				// the setter's body is the assignment
				ast.Inspect(cc, func(m ast.Node) bool {
					call, ok := m.(*ast.CallExpr)
					if !ok || clauseBody != nil {
						return true
					}
					se, ok := call.Fun.(*ast.SelectorExpr)
					if !ok {
						return true
					}
					fn, ok := info.Uses[se.Sel].(*types.Func)
					if !ok || fn.Pkg() != ip.Types {
						return true
					}
					for _, hd := range c.allFuncDecls("interp") {
						if hd.Body == nil || info.Defs[hd.Name] != fn || hd.Recv == nil || len(hd.Recv.List[0].Names) == 0 {
							continue
						}
						st := false
						ast.Inspect(hd.Body, func(x ast.Node) bool {
							if as, ok := x.(*ast.AssignStmt); ok {
								for _, l := range as.Lhs {
									if se, ok := l.(*ast.SelectorExpr); ok && se.Sel.Name == sp.reField[0] {
										st = true
									}
								}
							}
							return true
						})
						if st {
							clauseBody, clauseFd = hd.Body, hd
							for _, f := range hd.Type.Params.List {
								if b, ok := info.TypeOf(f.Type).Underlying().(*types.Basic); ok && b.Kind() == types.String {
									for _, nm := range f.Names {
										newNames = append(newNames, nm.Name)
									}
								}
							}
						}
					}
					return true
				})
				return true
			})
		}
		var clauseNode ast.Node
		if clause != nil {
			clauseNode = clause
		} else if clauseBody != nil {
			clauseNode = clauseBody
		}
		key := "sibling-pred:" + sp.name
		if clauseNode == nil || len(expanded) == 0 {
			c.undecided(key, token.NoPos, "the clause assigning %s (stores to %s) or the places using the compiled %s were not found (%d uses)", sp.name, sp.reField[0], sp.name, len(expanded))
			continue
		}
		clauseRecv := clauseFd.Recv.List[0].Names[0].Name
		clauseFile := fileOf(c, "interp", clauseFd)
		type store struct {
			conds []pathCond
			isNil bool
		}
		var stores []store
		ast.Inspect(clauseNode, func(m ast.Node) bool {
			as, ok := m.(*ast.AssignStmt)
			if !ok || len(as.Lhs) != len(as.Rhs) {
				return true
			}
			for i, l := range as.Lhs {
				se, ok := l.(*ast.SelectorExpr)
				if !ok || se.Sel.Name != sp.reField[0] {
					continue
				}
				var conds []pathCond
				for _, pc := range pathConds(clauseFile, as) {
					if pc.e.Pos() >= clauseNode.Pos() && pc.e.End() <= clauseNode.End() {
						conds = append(conds, pc)
					}
				}
				stores = append(stores, store{conds, isIdent(as.Rhs[i], "nil")})
			}
			return true
		})
		clauseAliases := localAliases(clauseFd)
		var problems []string
		for _, rep := range sp.reps {
			// is a use reachable for this separator?
			reach := 0
			where := ""
			for _, u := range expanded {
				env := &ceEnv{info: info, vals: map[string]cv{}, alias: localAliases(u.fd)}
				env.vals[u.recv+"."+sp.textField] = cvS(rep)
				for _, f := range sp.savedText {
					env.vals[u.recv+"."+f] = cvS(rep)
				}
				env.vals[u.recv+".inputMode"] = cvI(defaultMode)
				env.vals[u.recv+".line"] = cvS("a b")
				env.vals[u.recv+".reparseCSV"] = cvB(false)
				if h := env.holds(u.conds); h != 0 {
					reach = h
					where = declName(u.fd)
				}
			}
			if reach == 0 {
				continue
			}
			// does assigning this separator definitely store a regex?
			env := &ceEnv{info: info, vals: map[string]cv{}, alias: clauseAliases}
			env.vals[clauseRecv+"."+sp.textField] = cvS(rep)
			env.vals["#new"] = cvS(rep)
			for _, nn := range newNames {
				env.vals[nn] = cvS(rep)
			}
			definite, nilStored := false, false
			for _, st := range stores {
				if env.holds(st.conds) == 1 {
					if st.isNil {
						nilStored = true
					} else {
						definite = true
					}
				}
			}
			if !definite || nilStored {
				problems = append(problems, strconv.Quote(rep)+" (used in "+where+")")
			}
		}
		c.check(len(problems) == 0, key, clauseNode.Pos(),
			"for every class of "+sp.name+" value for which the compiled regex can be used, assigning that value stores a compiled regex ("+strconv.Itoa(len(sp.reps))+" representatives, "+strconv.Itoa(len(expanded))+" use sites, "+strconv.Itoa(len(stores))+" stores)",
			"assigning "+sp.name+" does not definitely store a compiled regex for the values "+strings.Join(problems, ", ")+", for which the splitter uses one: it dereferences a regex that was never compiled (nil) or matches with a stale one")
	}
}

func enclosing(file *ast.File, n ast.Node) []ast.Node {
	if file == nil {
		return nil
	}
	var path []ast.Node
	ast.Inspect(file, func(x ast.Node) bool {
		if x == nil {
			return false
		}
		if x.Pos() <= n.Pos() && n.End() <= x.End() {
			path = append([]ast.Node{x}, path...)
			return true
		}
		return false
	})
	// path[0] is n itself only if the innermost match is n
	for len(path) > 0 && path[0] != n && path[0].Pos() == n.Pos() && path[0].End() == n.End() {
		break
	}
	return path
}
