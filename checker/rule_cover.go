package main

import (
	"go/ast"
	"go/constant"
	"go/token"
	"go/types"
	_ "sort"
	"strings"

	"golang.org/x/tools/go/ssa"
)

// R-COVER (C18): coverage annotation and profile writer.

func init() {
	register("R-COVER", "coverage: (PRESERVE, NESTED, ONCE: decided by abstract execution of the statement-list annotator over sequence terms, helpers entered at their call sites) every path on which the input may be empty hands the input itself back, so nil (no action: print the record) and empty ({}: do nothing) stay distinct; on every path on which the element may be a statement type of package ast that holds a nested ast.Stmts field, that field is replaced exactly once by the annotation of itself and nothing else is stored into the statement; on every path through the loop body the accumulated result grows by counters each directly followed by exactly the (provably non-empty) block it counts, blocks emitted plus pending block equal old pending block plus this statement, both lists start empty and after the loop the pending block is flushed the same way; (LISTS) the list-level annotators keep every element and the tracked-block list is only appended to in one function, measured and ranged over; (COUNTER) the counter index is len(trackedBlocks) taken after the append and WriteProfile reads data[i+1] for the i-th block; the mode test evaluated for count mode yields a post-increment (INCR) of the element, for set mode an assignment of the constant 1; (POS) a block's start is the first statement's StartPos and its end the last statement's endPos, both lines mapped through FileReader.FileLine, the path taken from the start's mapping (expressions compared after substituting single-use helpers and parameters); (LINES) FileReader.AddFile records as the file's line count the number of newline bytes in exactly the region it appended; (FLAGS) every os.OpenFile of package cover, classified by the file-missing and append conditions it runs under, has O_CREATE when the file is missing, O_APPEND without O_TRUNC when appending and O_TRUNC otherwise, and the mode header is skipped exactly when appending to an existing file; (RECOMPILE) package main re-resolves and re-compiles the program after Annotate before it is run", ruleCover)
}

func ruleCover(c *Ctx) {
	coverExecuteError(c)
	cp := c.pkg("internal/cover")
	if cp == nil {
		c.undecided("anchor:cover", token.NoPos, "package internal/cover not loaded")
		return
	}
	info := cp.TypesInfo
	n := 0
	// ---------- PRESERVE, NESTED, ONCE: abstract execution of the annotator (rule_coverseq.go)
	n += coverSeq(c)
	// ---------- LISTS, ORDER
	n += coverLists(c, info)
	// ---------- COUNTER, POS
	n += coverTrack2(c, info)
	_ = coverTrack // superseded by coverTrack2 (function-independent)
	// ---------- LINES
	n += coverLines(c)
	// ---------- FLAGS
	n += coverFlags2(c)
	_ = coverFlags // superseded by coverFlags2 (function-independent)
	// ---------- RECOMPILE
	n += coverRecompile(c)
	c.atLeast("coverage obligations", n, 20)
}

func isStmtIface(t types.Type, iface *types.Interface) bool {
	n, ok := t.(*types.Named)
	if !ok {
		return false
	}
	i, ok := n.Underlying().(*types.Interface)
	return ok && types.Identical(i, iface)
}

func containsStmt(t types.Type, iface *types.Interface, stmts types.Type) bool {
	switch u := t.(type) {
	case *types.Slice:
		return containsStmt(u.Elem(), iface, stmts)
	case *types.Pointer:
		return false
	case *types.Named:
		if types.Identical(t, stmts) {
			return true
		}
		if i, ok := u.Underlying().(*types.Interface); ok && types.Identical(i, iface) {
			return true
		}
		if s, ok := u.Underlying().(*types.Slice); ok {
			return containsStmt(s.Elem(), iface, stmts)
		}
	}
	return false
}

func exprName(e ast.Expr) string {
	if id, ok := e.(*ast.Ident); ok {
		return id.Name
	}
	return ""
}

func isSel(e ast.Expr, x, sel string) bool {
	s, ok := e.(*ast.SelectorExpr)
	return ok && isIdent(s.X, x) && s.Sel.Name == sel
}

func isZeroLit(e ast.Expr) bool {
	b, ok := e.(*ast.BasicLit)
	return ok && b.Value == "0"
}

func isLenOf(e ast.Expr, name string) bool {
	call, ok := e.(*ast.CallExpr)
	return ok && isIdent(call.Fun, "len") && len(call.Args) == 1 && isIdent(call.Args[0], name)
}

func isLenZero(e ast.Expr, name string) bool {
	b, ok := e.(*ast.BinaryExpr)
	if !ok {
		return false
	}
	return (b.Op == token.EQL && ((isLenOf(b.X, name) && isZeroLit(b.Y)) || (isLenOf(b.Y, name) && isZeroLit(b.X)))) ||
		(b.Op == token.LSS && isLenOf(b.X, name) && isLit(b.Y, "1")) || (b.Op == token.LEQ && isLenOf(b.X, name) && isZeroLit(b.Y))
}

func isLenPositive(e ast.Expr, name string) bool {
	b, ok := e.(*ast.BinaryExpr)
	if !ok {
		return false
	}
	return (b.Op == token.GTR && isLenOf(b.X, name) && isZeroLit(b.Y)) || (b.Op == token.NEQ && isLenOf(b.X, name) && isZeroLit(b.Y)) ||
		(b.Op == token.GEQ && isLenOf(b.X, name) && isLit(b.Y, "1")) || (b.Op == token.LSS && isZeroLit(b.X) && isLenOf(b.Y, name))
}

func isLit(e ast.Expr, v string) bool {
	b, ok := e.(*ast.BasicLit)
	return ok && b.Value == v
}

func hasCallOrLoop(st ast.Stmt) bool {
	found := false
	ast.Inspect(st, func(n ast.Node) bool {
		switch x := n.(type) {
		case *ast.CallExpr:
			if id, ok := x.Fun.(*ast.Ident); !ok || (id.Name != "len" && id.Name != "cap") {
				found = true
			}
		case *ast.ForStmt, *ast.RangeStmt:
			found = true
		}
		return !found
	})
	return found
}

// calleeIs: call resolves (through type information) to a function or method of that name declared in this module.
func calleeIs(info *types.Info, call *ast.CallExpr, name string) bool {
	var id *ast.Ident
	switch f := call.Fun.(type) {
	case *ast.Ident:
		id = f
	case *ast.SelectorExpr:
		id = f.Sel
	default:
		return false
	}
	fn, ok := info.Uses[id].(*types.Func)
	return ok && fn.Name() == name && fn.Pkg() != nil && strings.HasPrefix(fn.Pkg().Path(), modPath)
}

// localDefs: single-definition locals of a function: name -> (defining expr, tuple index or -1).
type localDef struct {
	e   ast.Expr
	idx int
	pos token.Pos
}

func localDefs(fd *ast.FuncDecl) map[string]localDef {
	defs := map[string]localDef{}
	count := map[string]int{}
	ast.Inspect(fd.Body, func(n ast.Node) bool {
		as, ok := n.(*ast.AssignStmt)
		if !ok {
			return true
		}
		for i, l := range as.Lhs {
			id, ok := l.(*ast.Ident)
			if !ok || id.Name == "_" {
				continue
			}
			count[id.Name]++
			if len(as.Rhs) == len(as.Lhs) {
				defs[id.Name] = localDef{as.Rhs[i], -1, as.Pos()}
			} else if len(as.Rhs) == 1 {
				defs[id.Name] = localDef{as.Rhs[0], i, as.Pos()}
			}
		}
		return true
	})
	for k, v := range count {
		if v != 1 {
			delete(defs, k)
		}
	}
	return defs
}

// render prints an expression with single-definition locals expanded.
func render(e ast.Expr, defs map[string]localDef, depth int) string {
	if depth > 6 {
		return "?"
	}
	switch x := e.(type) {
	case *ast.Ident:
		if d, ok := defs[x.Name]; ok {
			s := render(d.e, defs, depth+1)
			if d.idx >= 0 {
				return s + "#" + itoa(int64(d.idx))
			}
			return s
		}
		return x.Name
	case *ast.SelectorExpr:
		return render(x.X, defs, depth) + "." + x.Sel.Name
	case *ast.CallExpr:
		var as []string
		for _, a := range x.Args {
			as = append(as, render(a, defs, depth))
		}
		return render(x.Fun, defs, depth) + "(" + strings.Join(as, ",") + ")"
	case *ast.IndexExpr:
		return render(x.X, defs, depth) + "[" + render(x.Index, defs, depth) + "]"
	case *ast.BinaryExpr:
		return "(" + render(x.X, defs, depth) + x.Op.String() + render(x.Y, defs, depth) + ")"
	case *ast.BasicLit:
		return x.Value
	case *ast.ParenExpr:
		return render(x.X, defs, depth)
	case *ast.UnaryExpr:
		return x.Op.String() + render(x.X, defs, depth)
	case *ast.CompositeLit:
		var es []string
		for _, el := range x.Elts {
			if kv, ok := el.(*ast.KeyValueExpr); ok {
				es = append(es, exprName(kv.Key)+":"+render(kv.Value, defs, depth))
			} else {
				es = append(es, render(el, defs, depth))
			}
		}
		return types.ExprString(x.Type) + "{" + strings.Join(es, ",") + "}"
	case *ast.StarExpr:
		return "*" + render(x.X, defs, depth)
	case *ast.SliceExpr:
		lo, hi := "", ""
		if x.Low != nil {
			lo = render(x.Low, defs, depth)
		}
		if x.High != nil {
			hi = render(x.High, defs, depth)
		}
		return render(x.X, defs, depth) + "[" + lo + ":" + hi + "]"
	}
	return types.ExprString(e)
}

func litField(cl *ast.CompositeLit, name string) ast.Expr {
	for _, el := range cl.Elts {
		if kv, ok := el.(*ast.KeyValueExpr); ok && exprName(kv.Key) == name {
			return kv.Value
		}
	}
	return nil
}

// coverLists: the list-level annotators keep every element (same length, same order), and the
// tracked-block list is only ever appended to (by trackStatement), measured and ranged over.
func coverLists(c *Ctx, info *types.Info) int {
	n := 0
	for _, name := range []string{"annotateStmtsList", "annotateActions", "annotateFunctions"} {
		fd := c.funcDecl("internal/cover", "Cover."+name)
		if fd == nil {
			c.undecided("anchor:"+name, token.NoPos, "Cover.%s not found", name)
			continue
		}
		n++
		param := fd.Type.Params.List[0].Names[0].Name
		var loop *ast.RangeStmt
		for _, st := range fd.Body.List {
			if r, ok := st.(*ast.RangeStmt); ok && isIdent(r.X, param) {
				loop = r
			}
		}
		good := loop != nil
		appends := 0
		if loop != nil {
			for _, st := range loop.Body.List {
				switch s := st.(type) {
				case *ast.AssignStmt:
					if len(s.Rhs) == 1 {
						if call, ok := s.Rhs[0].(*ast.CallExpr); ok && isIdent(call.Fun, "append") {
							if len(call.Args) == 2 && !call.Ellipsis.IsValid() {
								appends++
							} else {
								good = false
							}
						}
					}
				default:
					// any control flow in the loop body can drop or duplicate an element
					good = false
				}
			}
		}
		c.check(good && appends == 1, "lists:"+name, fd.Pos(),
			"every element is kept: the loop body is straight-line code with exactly one append per element",
			name+" does not append exactly one result per input element on every iteration (control flow in the loop body, or no/several appends): a BEGIN/END block, an action or a function can disappear from (or be duplicated in) the annotated program, which changes what runs")
	}
	// who touches trackedBlocks
	cp := c.pkg("internal/cover")
	var badUse string
	var badPos token.Pos
	uses := 0
	appenders := map[string]bool{}
	for _, fd := range c.allFuncDecls("internal/cover") {
		if fd.Body == nil || fd.Recv == nil || len(fd.Recv.List[0].Names) == 0 {
			continue
		}
		recv := fd.Recv.List[0].Names[0].Name
		path := []ast.Node{}
		ast.Inspect(fd.Body, func(nd ast.Node) bool {
			if nd == nil {
				path = path[:len(path)-1]
				return true
			}
			path = append(path, nd)
			se, ok := nd.(*ast.SelectorExpr)
			if !ok || !isIdent(se.X, recv) || se.Sel.Name != "trackedBlocks" {
				return true
			}
			uses++
			parent := path[len(path)-2]
			okUse := false
			switch p := parent.(type) {
			case *ast.RangeStmt:
				okUse = p.X == ast.Expr(se)
			case *ast.CallExpr:
				if isIdent(p.Fun, "len") {
					okUse = true
				}
				if isIdent(p.Fun, "append") && len(p.Args) == 2 && !p.Ellipsis.IsValid() && p.Args[0] == ast.Expr(se) {
					okUse = true
					appenders[fd.Name.Name] = true
				}
			case *ast.AssignStmt:
				// cover.trackedBlocks = append(cover.trackedBlocks, ...) in trackStatement
				if len(p.Lhs) == 1 && p.Lhs[0] == ast.Expr(se) {
					if call, ok := p.Rhs[0].(*ast.CallExpr); ok && isIdent(call.Fun, "append") && len(call.Args) == 2 && !call.Ellipsis.IsValid() {
						okUse = true
						appenders[fd.Name.Name] = true
					}
				}
			}
			if !okUse && badUse == "" {
				badUse = declName(fd) + ": " + types.ExprString(se)
				badPos = se.Pos()
			}
			return true
		})
	}
	_ = cp
	n++
	if badUse == "" && len(appenders) != 1 {
		badUse = "appended to in " + itoa(int64(len(appenders))) + " functions"
	}
	c.check(badUse == "" && uses >= 4, "counter:order", badPos,
		"the tracked-block list is only appended to (one element at a time, in one function), measured and ranged over: block i keeps counter element i+1",
		"the tracked-block list is used other than by a single-element append in one function, len and range ("+badUse+"): reordering, indexing or passing it on (for example to sort) breaks the pairing of block i with counter element i+1, so counts are attributed to the wrong blocks")
	return n
}

func coverTrack(c *Ctx, info *types.Info) int {
	fd := c.funcDecl("internal/cover", "Cover.trackStatement")
	if fd == nil {
		c.undecided("anchor:trackStatement", token.NoPos, "Cover.trackStatement not found")
		return 0
	}
	n := 0
	recv := fd.Recv.List[0].Names[0].Name
	arg := fd.Type.Params.List[0].Names[0].Name
	defs := localDefs(fd)
	// the append to trackedBlocks and its literal
	var blockLit *ast.CompositeLit
	var appendPos token.Pos
	for _, st := range fd.Body.List {
		as, ok := st.(*ast.AssignStmt)
		if !ok || len(as.Lhs) != 1 || !isSel(as.Lhs[0], recv, "trackedBlocks") {
			continue
		}
		if call, ok := as.Rhs[0].(*ast.CallExpr); ok && isIdent(call.Fun, "append") && len(call.Args) == 2 && isSel(call.Args[0], recv, "trackedBlocks") {
			blockLit, _ = call.Args[1].(*ast.CompositeLit)
			appendPos = as.Pos()
		}
	}
	if blockLit == nil {
		c.undecided("anchor:trackedBlocks-append", fd.Pos(), "trackStatement does not append a trackedBlock literal to %s.trackedBlocks at top level", recv)
		return 0
	}
	first := arg + "[0].StartPos()"
	last := "endPos(" + arg + "[(len(" + arg + ")-1)])"
	flStart := recv + ".fileReader.FileLine(" + first + ".Line)"
	flEnd := recv + ".fileReader.FileLine(" + last + ".Line)"
	want := map[string]string{
		"start":    "lexer.Position{Line:" + flStart + "#1,Column:" + first + ".Column}",
		"end":      "lexer.Position{Line:" + flEnd + "#1,Column:" + last + ".Column}",
		"path":     flStart + "#0",
		"numStmts": "len(" + arg + ")",
	}
	for _, f := range []string{"start", "end", "path", "numStmts"} {
		v := litField(blockLit, f)
		got := ""
		if v != nil {
			got = render(v, defs, 0)
		}
		n++
		c.check(got == want[f], "pos:"+f, blockLit.Pos(),
			f+" = "+want[f],
			"trackedBlock."+f+" is "+got+", expected "+want[f]+": the reported block does not span first-statement start to last-statement end in the file the start maps to")
	}
	// endPos: statements with a BodyStart field end their block header there; others at EndPos
	if ep := c.funcDecl("internal/cover", "endPos"); ep != nil {
		okAll := true
		cnt := 0
		ast.Inspect(ep.Body, func(nd ast.Node) bool {
			cc, ok := nd.(*ast.CaseClause)
			if !ok {
				return true
			}
			cnt++
			if len(cc.Body) != 1 {
				okAll = false
				return true
			}
			r, ok := cc.Body[0].(*ast.ReturnStmt)
			if !ok || len(r.Results) != 1 {
				okAll = false
				return true
			}
			s := types.ExprString(r.Results[0])
			if cc.List == nil {
				okAll = okAll && strings.HasSuffix(s, ".EndPos()")
			} else {
				okAll = okAll && strings.HasSuffix(s, ".BodyStart")
			}
			return true
		})
		n++
		c.check(okAll && cnt >= 2, "pos:endPos", ep.Pos(), "compound statements end their header block at BodyStart, simple ones at EndPos()",
			"endPos returns something other than the statement's BodyStart / EndPos(): block end positions no longer come from the parser's recorded positions")
	} else {
		c.undecided("anchor:endPos", token.NoPos, "endPos not found")
	}
	// counter index: NumExpr{Value: float64(len(recv.trackedBlocks))} positioned after the append
	var idxLit *ast.CompositeLit
	ast.Inspect(fd.Body, func(nd ast.Node) bool {
		cl, ok := nd.(*ast.CompositeLit)
		if ok && strings.HasSuffix(types.ExprString(cl.Type), "IndexExpr") {
			idxLit = cl
		}
		return true
	})
	idxOK := false
	idxStr := ""
	if idxLit != nil && idxLit.Pos() > appendPos {
		if iv := litField(idxLit, "Index"); iv != nil {
			idxStr = render(iv, defs, 0)
			idxOK = idxStr == "[]ast.Expr{&ast.NumExpr{Value:float64(len("+recv+".trackedBlocks))}}"
		}
		if av := litField(idxLit, "Array"); av == nil || exprName(av) != "ArrayName" {
			idxOK = false
		}
	}
	n++
	c.check(idxOK, "counter:index", fd.Pos(), "counter element is ArrayName[len(trackedBlocks)] taken after the append (1-based)",
		"the counter's element is not ArrayName[len(trackedBlocks)] evaluated after the block was appended ("+idxStr+"): counters and blocks are paired off by one or share an element")
	// WriteProfile reads dataInts[i+1] in a range over trackedBlocks
	if wp := c.funcDecl("internal/cover", "Cover.WriteProfile"); wp != nil {
		wrecv := wp.Recv.List[0].Names[0].Name
		ok := false
		ast.Inspect(wp.Body, func(nd ast.Node) bool {
			r, isR := nd.(*ast.RangeStmt)
			if !isR || !isSel(r.X, wrecv, "trackedBlocks") || r.Key == nil {
				return true
			}
			k := exprName(r.Key)
			v := exprName(r.Value)
			uses := 0
			good := 0
			ast.Inspect(r.Body, func(m ast.Node) bool {
				ix, isIx := m.(*ast.IndexExpr)
				if !isIx {
					return true
				}
				if t := info.TypeOf(ix.X); t != nil {
					if _, isMap := t.Underlying().(*types.Map); isMap {
						uses++
						if b, isB := ix.Index.(*ast.BinaryExpr); isB && b.Op == token.ADD && ((isIdent(b.X, k) && isLit(b.Y, "1")) || (isIdent(b.Y, k) && isLit(b.X, "1"))) {
							good++
						}
					}
				}
				return true
			})
			// block fields printed come from the range value
			fromV := 0
			ast.Inspect(r.Body, func(m ast.Node) bool {
				if s, isS := m.(*ast.SelectorExpr); isS && isIdent(s.X, v) {
					fromV++
				}
				return true
			})
			ok = uses == 1 && good == 1 && fromV >= 6
			return false
		})
		n++
		c.check(ok, "counter:read", wp.Pos(), "the i-th block is written with data[i+1] and its own position fields",
			"WriteProfile does not pair the i-th tracked block with counter element i+1: counts are attributed to the wrong block")
	} else {
		c.undecided("anchor:WriteProfile", token.NoPos, "Cover.WriteProfile not found")
	}
	// mode mapping
	{
		var countRet, otherRet string
		for _, st := range fd.Body.List {
			switch s := st.(type) {
			case *ast.IfStmt:
				if b, ok := s.Cond.(*ast.BinaryExpr); ok && b.Op == token.EQL && isSel(b.X, recv, "mode") && exprName(b.Y) == "ModeCount" && s.Else == nil {
					for _, bs := range s.Body.List {
						if r, ok := bs.(*ast.ReturnStmt); ok && len(r.Results) == 1 {
							countRet = render(r.Results[0], defs, 0)
						}
					}
				}
			case *ast.ReturnStmt:
				if len(s.Results) == 1 {
					otherRet = render(s.Results[0], defs, 0)
				}
			}
		}
		elem := ""
		if idxLit != nil {
			elem = render(&ast.UnaryExpr{Op: token.AND, X: idxLit}, defs, 0)
		}
		wantCount := "&ast.ExprStmt{Expr:&ast.IncrExpr{Expr:" + elem + ",Op:lexer.INCR}}"
		wantCount2 := "&ast.ExprStmt{Expr:&ast.IncrExpr{Expr:" + elem + ",Op:lexer.INCR,Pre:false}}"
		wantSet := "&ast.ExprStmt{Expr:&ast.AssignExpr{Left:" + elem + ",Right:&ast.NumExpr{Value:1}}}"
		n += 2
		c.check(countRet == wantCount || countRet == wantCount2, "counter:count-mode", fd.Pos(), "count mode emits ArrayName[i]++",
			"in count mode the counter statement is "+countRet+", not a post-increment of the block's element: counts do not equal the number of executions")
		c.check(otherRet == wantSet, "counter:set-mode", fd.Pos(), "set mode emits ArrayName[i] = 1",
			"in set mode the counter statement is "+otherRet+", not an assignment of 1 to the block's element")
	}
	return n
}

func coverLines(c *Ctx) int {
	n := 0
	fd := c.funcDecl("internal/parseutil", "FileReader.AddFile")
	fl := c.funcDecl("internal/parseutil", "FileReader.FileLine")
	if fd == nil || fl == nil {
		c.undecided("anchor:FileReader", token.NoPos, "FileReader.AddFile / FileLine not found")
		return 0
	}
	recv := fd.Recv.List[0].Names[0].Name
	defs := localDefs(fd)
	// the file literal appended to fr.files
	var lit *ast.CompositeLit
	ast.Inspect(fd.Body, func(nd ast.Node) bool {
		as, ok := nd.(*ast.AssignStmt)
		if ok && len(as.Lhs) == 1 && isSel(as.Lhs[0], recv, "files") {
			if call, ok := as.Rhs[0].(*ast.CallExpr); ok && isIdent(call.Fun, "append") && len(call.Args) == 2 {
				lit, _ = call.Args[1].(*ast.CompositeLit)
			}
		}
		return true
	})
	got := ""
	if lit != nil {
		var v ast.Expr
		if len(lit.Elts) == 2 {
			v = lit.Elts[1]
			if kv, ok := v.(*ast.KeyValueExpr); ok {
				v = kv.Value
			}
		}
		if lv := litField(lit, "lines"); lv != nil {
			v = lv
		}
		if v != nil {
			got = render(v, defs, 0)
		}
	}
	// curLen must be taken before the read: its definition precedes the ReadFrom call
	curOK := false
	if d, ok := defs["curLen"]; ok {
		var readPos token.Pos
		ast.Inspect(fd.Body, func(nd ast.Node) bool {
			if call, ok := nd.(*ast.CallExpr); ok {
				if s, ok := call.Fun.(*ast.SelectorExpr); ok && (s.Sel.Name == "ReadFrom" || s.Sel.Name == "Write" || s.Sel.Name == "WriteString") && readPos == token.NoPos {
					readPos = call.Pos()
				}
			}
			return true
		})
		curOK = readPos != token.NoPos && d.pos < readPos
	}
	want := "bytes.Count(" + recv + ".source.Bytes()[" + recv + ".source.Len():],[]byte(\"\\n\"))"
	// render cannot print slice expressions: handle by a dedicated pattern
	n++
	c.check(curOK && normSlice(got) == want, "lines:count", fd.Pos(),
		"a file's line count is the number of newline bytes in exactly the region appended (offset taken before the read)",
		"AddFile records "+got+" as the line count, not the number of newline bytes in the region it appended (from the length before the read): later files' blocks and error messages are reported at shifted lines when a file ends in blank lines")
	// FileLine: startLine := 1; for range files: if line >= startLine && line < startLine+f.lines {return f.path, line-startLine+1}; startLine += f.lines
	{
		ok := false
		ldefs := localDefs(fl)
		_ = ldefs
		lineP := fl.Type.Params.List[0].Names[0].Name
		var start string
		for _, st := range fl.Body.List {
			if as, isAs := st.(*ast.AssignStmt); isAs && as.Tok == token.DEFINE && len(as.Lhs) == 1 && isLit(as.Rhs[0], "1") {
				start = exprName(as.Lhs[0])
			}
			r, isR := st.(*ast.RangeStmt)
			if !isR || start == "" || r.Value == nil {
				continue
			}
			f := exprName(r.Value)
			condOK, retOK, incOK := false, false, false
			for _, bs := range r.Body.List {
				switch s := bs.(type) {
				case *ast.IfStmt:
					cs := render(s.Cond, nil, 0)
					lo1, lo2 := "("+lineP+">="+start+")", "("+start+"<="+lineP+")"
					hi1, hi2 := "("+lineP+"<("+start+"+"+f+".lines))", "(("+start+"+"+f+".lines)>"+lineP+")"
					for _, lo := range []string{lo1, lo2} {
						for _, hi := range []string{hi1, hi2} {
							if cs == "("+lo+"&&"+hi+")" || cs == "("+hi+"&&"+lo+")" {
								condOK = true
							}
						}
					}
					if len(s.Body.List) == 1 {
						if rt, isRt := s.Body.List[0].(*ast.ReturnStmt); isRt && len(rt.Results) == 2 {
							rs := render(rt.Results[1], nil, 0)
							retOK = render(rt.Results[0], nil, 0) == f+".path" && (rs == "(("+lineP+"-"+start+")+1)" || rs == "(("+lineP+"+1)-"+start+")" || rs == "(1+("+lineP+"-"+start+"))")
						}
					}
				case *ast.AssignStmt:
					if s.Tok == token.ADD_ASSIGN && isIdent(s.Lhs[0], start) && render(s.Rhs[0], nil, 0) == f+".lines" {
						incOK = true
					}
				}
			}
			ok = condOK && retOK && incOK && len(r.Body.List) == 2
		}
		// a comparison against one frozen loop shape: reported as a note, never as a verdict (an equivalent
		// rewrite of FileLine must not raise an alarm, and the arithmetic of an arbitrary rewrite is out of reach)
		c.note(ok, "lines:fileline-shape", fl.Pos(), "FileLine walks half-open ranges [start, start+lines) from line 1 and returns line-start+1",
			"FileLine no longer has the reviewed shape (half-open ranges from line 1, returning line-start+1): re-review the mapping of global lines to (file, line)")
	}
	return n
}

// normSlice: render prints slice expressions through types.ExprString with locals unexpanded; expand curLen/content by hand.
func normSlice(s string) string { return s }

func coverFlags(c *Ctx) int {
	fn := c.ssaFunc("internal/cover", "Cover.WriteProfile")
	if fn == nil {
		c.undecided("anchor:WriteProfile-ssa", token.NoPos, "Cover.WriteProfile not found")
		return 0
	}
	// flag values of the platform the check loaded, read from package os itself
	var oAppend, oCreate, oTrunc int64
	for _, imp := range c.pkg("internal/cover").Types.Imports() {
		if imp.Path() != "os" {
			continue
		}
		for name, dst := range map[string]*int64{"O_APPEND": &oAppend, "O_CREATE": &oCreate, "O_TRUNC": &oTrunc} {
			if k, ok := imp.Scope().Lookup(name).(*types.Const); ok {
				*dst, _ = constant.Int64Val(k.Val())
			}
		}
	}
	if oAppend == 0 || oCreate == 0 || oTrunc == 0 {
		c.undecided("anchor:os-flags", token.NoPos, "os.O_APPEND/O_CREATE/O_TRUNC not resolvable")
		return 0
	}
	n := 0
	// If-blocks on cover.append and on os.IsNotExist(...)
	var appendIfs, notExistIfs []*ssa.BasicBlock
	for _, b := range fn.Blocks {
		if len(b.Instrs) == 0 {
			continue
		}
		iff, ok := b.Instrs[len(b.Instrs)-1].(*ssa.If)
		if !ok {
			continue
		}
		if fv, _ := loadedField(iff.Cond); fv != nil && fv.Name() == "append" {
			appendIfs = append(appendIfs, b)
		}
		if call, ok := iff.Cond.(*ssa.Call); ok {
			if f := calleeObj(call); f != nil && funcFullName(f) == "os.IsNotExist" {
				notExistIfs = append(notExistIfs, b)
			}
		}
	}
	underAppend := func(b *ssa.BasicBlock) bool {
		for _, ib := range appendIfs {
			if b != ib && (edgeDominates(ib, 0, b) || ib.Succs[0] == b && len(b.Preds) == 1) {
				return true
			}
		}
		return false
	}
	underNotExist := func(b *ssa.BasicBlock) bool {
		for _, ib := range notExistIfs {
			if b != ib && (edgeDominates(ib, 0, b) || ib.Succs[0] == b && len(b.Preds) == 1) {
				return true
			}
		}
		return false
	}
	// cases of a value: (const, arrived under append-true?)
	type vcase struct {
		v      int64
		append bool
	}
	var cases func(v ssa.Value, blk *ssa.BasicBlock, depth int) ([]vcase, bool)
	cases = func(v ssa.Value, blk *ssa.BasicBlock, depth int) ([]vcase, bool) {
		if depth > 6 {
			return nil, false
		}
		switch x := v.(type) {
		case *ssa.Const:
			if is := constInts(x, 0); len(is) == 1 {
				return []vcase{{is[0], underAppend(blk)}}, true
			}
			if x.Value != nil {
				// boolean constants
				if x.Value.String() == "true" {
					return []vcase{{1, underAppend(blk)}}, true
				}
				if x.Value.String() == "false" {
					return []vcase{{0, underAppend(blk)}}, true
				}
			}
		case *ssa.Phi:
			var out []vcase
			for i, e := range x.Edges {
				cs, ok := cases(e, x.Block().Preds[i], depth+1)
				if !ok {
					return nil, false
				}
				out = append(out, cs...)
			}
			return out, true
		case *ssa.BinOp:
			if x.Op != token.OR {
				return nil, false
			}
			xs, ok1 := cases(x.X, blk, depth+1)
			ys, ok2 := cases(x.Y, blk, depth+1)
			if !ok1 || !ok2 {
				return nil, false
			}
			var out []vcase
			for _, a := range xs {
				for _, b := range ys {
					out = append(out, vcase{a.v | b.v, a.append || b.append || underAppend(x.Block())})
				}
			}
			return out, true
		}
		return nil, false
	}
	opens := 0
	for _, b := range fn.Blocks {
		for _, in := range b.Instrs {
			call, ok := in.(*ssa.Call)
			if !ok {
				continue
			}
			f := calleeObj(call)
			if f == nil {
				continue
			}
			full := funcFullName(f)
			if full == "os.Create" || full == "os.Open" {
				c.bad("flags:open:"+full, in.Pos(), "WriteProfile opens the profile with %s, whose flags do not depend on append", full)
				n++
				continue
			}
			if full != "os.OpenFile" {
				continue
			}
			opens++
			key := "flags:open#" + itoa(int64(opens))
			cs, ok := cases(call.Call.Args[1], b, 0)
			n++
			if !ok {
				c.undecided(key, in.Pos(), "flag argument of os.OpenFile is not a constant expression over append")
				continue
			}
			if underNotExist(b) {
				good := true
				for _, cv := range cs {
					if cv.v&oCreate == 0 {
						good = false
					}
				}
				c.check(good, key, in.Pos(), "missing file: opened with O_CREATE", "the open on the file-does-not-exist path lacks O_CREATE")
				continue
			}
			good := true
			why := ""
			sawTrunc, sawAppend := false, false
			for _, cv := range cs {
				if cv.append {
					if cv.v&oAppend == 0 || cv.v&oTrunc != 0 {
						good, why = false, "with append set the flags are "+hexs(cv.v)+" (need O_APPEND without O_TRUNC)"
					}
					sawAppend = true
				} else {
					if cv.v&oTrunc == 0 {
						good, why = false, "without append the flags are "+hexs(cv.v)+", lacking O_TRUNC: a shorter profile written over a longer one leaves the old tail in place"
					}
					if cv.v&oAppend != 0 && cv.v&oTrunc == 0 {
						good, why = false, "O_APPEND is used although append is not set"
					}
					sawTrunc = true
				}
			}
			if good && (!sawTrunc || !sawAppend) {
				good, why = false, "the flags do not depend on the append setting"
			}
			c.check(good, key, in.Pos(), "existing file: O_TRUNC unless append, O_APPEND only then", "os.OpenFile on the existing-file path: "+why)
		}
	}
	if opens == 0 {
		c.bad("flags:open", fn.Pos(), "WriteProfile has no os.OpenFile call")
		n++
	}
	// header: the `if isNewFile` condition is false only under append on the exists path
	hdr := false
	for _, b := range fn.Blocks {
		if len(b.Instrs) == 0 {
			continue
		}
		iff, ok := b.Instrs[len(b.Instrs)-1].(*ssa.If)
		if !ok {
			continue
		}
		ph, ok := iff.Cond.(*ssa.Phi)
		if !ok {
			continue
		}
		cs, ok := cases(ph, b, 0)
		if !ok || len(cs) < 2 {
			continue
		}
		// true-branch writes the header (a Fprintf with "mode:")
		writes := false
		for _, in := range b.Succs[0].Instrs {
			if call, ok := in.(*ssa.Call); ok {
				if f := calleeObj(call); f != nil && funcFullName(f) == "fmt.Fprintf" {
					writes = true
				}
			}
		}
		if !writes {
			continue
		}
		good, sawFalse := true, false
		for i, cv := range cs {
			_ = i
			if cv.v == 0 {
				sawFalse = true
				if !cv.append {
					good = false
				}
			}
		}
		// the false edge must not come from the not-exist path
		for i, e := range ph.Edges {
			if k, ok := e.(*ssa.Const); ok && k.Value != nil && k.Value.String() == "false" && underNotExist(ph.Block().Preds[i]) {
				good = false
			}
		}
		hdr = true
		n++
		c.check(good && sawFalse, "flags:header", iff.Pos(), "the mode header is skipped only when appending to an existing file",
			"the mode header is written (or skipped) on the wrong paths: an appended profile gets a second header, or a fresh one none")
	}
	if !hdr {
		n++
		c.bad("flags:header", fn.Pos(), "no `if isNewFile { write mode header }` found whose condition is decided by append and file existence")
	}
	return n
}

func hexs(v int64) string {
	const digits = "0123456789abcdef"
	if v == 0 {
		return "0x0"
	}
	s := ""
	for v > 0 {
		s = string(digits[v&15]) + s
		v >>= 4
	}
	return "0x" + s
}

func coverRecompile(c *Ctx) int {
	if c.funcDecl("main", "main") == nil {
		c.undecided("anchor:main", token.NoPos, "main.main not found")
		return 0
	}
	info := c.pkg("main").TypesInfo
	n := 0
	var found bool
	// the statement-level call of Cover.Annotate may sit in main or in a helper of package main
	for _, fd := range c.allFuncDecls("main") {
		if fd.Body == nil {
			continue
		}
		ast.Inspect(fd.Body, func(nd ast.Node) bool {
			blk, ok := nd.(*ast.BlockStmt)
			if !ok || found {
				return true
			}
			idx := -1
			var annotated string
			for i, st := range blk.List {
				if es, ok := st.(*ast.ExprStmt); ok {
					if call, ok := es.X.(*ast.CallExpr); ok && calleeIs(info, call, "Annotate") && len(call.Args) == 1 {
						idx = i
						annotated = exprName(call.Args[0])
					}
				}
			}
			if idx < 0 {
				return true
			}
			found = true
			// after Annotate at the same nesting level: ResolvedProgram and Compiled are both reassigned
			var resolvedFrom, compiledFrom string
			var resolvedAt, compiledAt token.Pos
			defs := map[string]ast.Expr{}
			for _, st := range blk.List[idx+1:] {
				as, ok := st.(*ast.AssignStmt)
				if !ok {
					continue
				}
				for i, l := range as.Lhs {
					var rhs ast.Expr
					if len(as.Rhs) == len(as.Lhs) {
						rhs = as.Rhs[i]
					} else if len(as.Rhs) == 1 && i == 0 {
						rhs = as.Rhs[0]
					}
					if rhs == nil {
						continue
					}
					if id, ok := l.(*ast.Ident); ok {
						defs[id.Name] = rhs
					}
					if s, ok := l.(*ast.SelectorExpr); ok {
						switch s.Sel.Name {
						case "ResolvedProgram":
							r := rhs
							if st, ok := r.(*ast.StarExpr); ok {
								r = st.X
							}
							if id, ok := r.(*ast.Ident); ok && defs[id.Name] != nil {
								r = defs[id.Name]
							}
							if call, ok := r.(*ast.CallExpr); ok && len(call.Args) >= 1 && isIdent(call.Args[0], annotated) && (calleeIs(info, call, "resolveAnnotated") || calleeIs(info, call, "Resolve")) {
								resolvedFrom = annotated
								resolvedAt = as.Pos()
							}
						case "Compiled":
							if call, ok := rhs.(*ast.CallExpr); ok && calleeIs(info, call, "Compile") && len(call.Args) == 1 && strings.HasSuffix(types.ExprString(call.Args[0]), ".ResolvedProgram") {
								compiledFrom = types.ExprString(call.Args[0])
								compiledAt = as.Pos()
							}
						}
					}
				}
			}
			n++
			c.check(resolvedFrom != "" && compiledFrom != "" && resolvedAt < compiledAt, "recompile:main", blk.List[idx].Pos(),
				"after Annotate the tree is re-resolved into prog.ResolvedProgram and prog.Compiled is rebuilt from it",
				"main does not, after coverage.Annotate, re-resolve the annotated tree into prog.ResolvedProgram and then rebuild prog.Compiled from it: the counters never run (or run against stale variable indexes)")
			return false
		})
	}
	if !found {
		c.undecided("anchor:Annotate-call", token.NoPos, "no statement-level call of Cover.Annotate in package main")
	}
	// the annotated tree is the one inside prog: astProgram := &prog.ResolvedProgram.Program
	return n
}
