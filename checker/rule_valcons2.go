package main

import (
	"go/token"

	"golang.org/x/tools/go/ssa"
)

// producerStoresNumStr (part of R-VALCONS, C05): a function that produces input-derived values (it constructs
// numeric strings with numStr: split(), the getline and field paths) stores no array element built with the plain
// string constructor: text that comes from input or from splitting a string is a numeric string on every path of the
// producer, also on a fast path added beside the shared one.
func producerStoresNumStr(c *Ctx) {
	n := 0
	for _, fn := range c.srcFuncs("interp") {
		fn := fn
		produces := false
		allInstrs(fn, func(in ssa.Instruction) {
			if callsNamed(in, "numStr") {
				produces = true
			}
		})
		if !produces {
			continue
		}
		n++
		bad := token.NoPos
		allInstrs(fn, func(in ssa.Instruction) {
			mu, ok := in.(*ssa.MapUpdate)
			if !ok {
				return
			}
			if call, ok := mu.Value.(*ssa.Call); ok {
				if cal := call.Call.StaticCallee(); cal != nil && cal.Name() == "str" && cal.Pkg == fn.Pkg {
					if _, isConst := call.Call.Args[0].(*ssa.Const); !isConst {
						bad = posOr(in.Pos(), fn.Pos())
					}
				}
			}
		})
		c.check(bad == token.NoPos, "numStr:producer-stores:"+fnKey(fn), posOr(bad, fn.Pos()), "no array element stored by this producer of input-derived values is a plain string",
			fnKey(fn)+" produces input-derived values (it builds numeric strings elsewhere) but stores an array element built with str(): on that path text that looks numeric compares as a string ("+"split(\"10\", a) in CSV mode: a[1] < 9 is true) while arithmetic on it is numeric")
	}
	c.atLeast("producers of input-derived values", n, 3)
}
