package main

import (
	"go/token"
	"go/types"

	"golang.org/x/tools/go/ssa"
)

// csvHeaderCallback (part of R-CSVVALID, C02/C08): the CSV scanner calls its setFieldNames callback on the first row
// when its header flag is set. Every function that builds a CSV scanner (itself or through a helper of the package)
// and lets the header flag be anything but the constant false also gives it the callback: a scanner with the flag
// set and no callback panics (nil function) on the first row it reads - two-argument split() in header mode.
func csvHeaderCallback(c *Ctx) {
	isSplitter := func(t types.Type) bool { return isNamed(deref(t), modPath+"/interp", "csvSplitter") }
	type summary struct {
		headerMaybe, headerFalse, callback bool
		pos                                 token.Pos
	}
	sums := map[*ssa.Function]*summary{}
	for _, fn := range c.srcFuncs("interp") {
		fn := fn
		s := &summary{}
		allInstrs(fn, func(in ssa.Instruction) {
			st, ok := in.(*ssa.Store)
			if !ok {
				return
			}
			f, base := fieldOfAddr(st.Addr)
			if f == nil || !isSplitter(base.Type()) {
				return
			}
			switch f.Name() {
			case "header":
				if k, ok := st.Val.(*ssa.Const); ok && k.Value != nil && k.Value.ExactString() == "false" {
					s.headerFalse = true
				} else {
					s.headerMaybe = true
					s.pos = in.Pos()
				}
			default:
				// the callback: a field of function or interface type (a function value, or a sink object) given a value
				isCB := f.Name() == "setFieldNames"
				switch f.Type().Underlying().(type) {
				case *types.Signature, *types.Interface:
					isCB = true
				}
				if isCB {
					if k, ok := st.Val.(*ssa.Const); !ok || k.Value != nil {
						s.callback = true
					}
				}
			}
		})
		sums[fn] = s
	}
	n := 0
	for _, fn := range c.srcFuncs("interp") {
		fn := fn
		// a function that ends up with a splitter it uses: it stores into one, or receives one from a helper, and
		// refers to the scan method (or hands the splitter on to a scanner)
		own := sums[fn]
		var viaHelper []*ssa.Function
		usesScan := false
		allInstrs(fn, func(in ssa.Instruction) {
			if call, ok := in.(ssa.CallInstruction); ok {
				if g := call.Common().StaticCallee(); g != nil && g.Pkg == fn.Pkg && g != fn {
					res := g.Signature.Results()
					for i := 0; i < res.Len(); i++ {
						if isSplitter(res.At(i).Type()) {
							viaHelper = append(viaHelper, g)
						}
					}
					if g.Name() == "scan" && g.Signature.Recv() != nil && isSplitter(g.Signature.Recv().Type()) {
						usesScan = true
					}
				}
			}
			if mc, ok := in.(*ssa.MakeClosure); ok {
				if f, ok := mc.Fn.(*ssa.Function); ok && (f.Name() == "scan$bound" || f.Name() == "scan") {
					usesScan = true
				}
			}
		})
		if !usesScan {
			continue
		}
		n++
		headerMaybe, callback, headerFalseHere := own.headerMaybe, own.callback, own.headerFalse
		pos := own.pos
		for _, g := range viaHelper {
			if hs := sums[g]; hs != nil {
				if hs.headerMaybe && !headerFalseHere {
					headerMaybe = true
					if pos == token.NoPos {
						pos = hs.pos
					}
				}
				if hs.callback {
					callback = true
				}
			}
		}
		if own.headerMaybe {
			headerMaybe = true
		}
		c.check(!headerMaybe || callback, "csv-header:callback:"+fnKey(fn), posOr(pos, fn.Pos()), "a CSV scanner whose header flag can be set is given the field-name callback",
			fnKey(fn)+" uses a CSV scanner whose header flag can be true (it is not the constant false on the way here) without giving it the setFieldNames callback: the scanner calls the nil function on the first row - two-argument split() on a non-empty string in CSV/TSV header mode crashes the host")
	}
	c.atLeast("functions that run the CSV scanner", n, 1)
}
