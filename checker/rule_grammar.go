package main

import (
	"fmt"
	"go/ast"
	"go/token"
	"go/types"
	"sort"
	"strings"
)

// R-GRAMMAR (C04): the precedence chain of the recursive-descent expression parser, extracted and
// compared with the POSIX table.

func init() {
	register("R-GRAMMAR", "the expression grammar as implemented: starting from the general and the print-context expression entry points, each precedence level is extracted from the parser's functions (higher-order helpers partially evaluated with their bound method values) as <operator tokens, associativity (loop = left, self-recursion = right, single test = none), operand levels>, and the resulting chain must equal the POSIX table: assignment (right) < ?: (right, arms at the context's lowest level) < || < && < in < ~ !~ (non-assoc) < relational (non-assoc; without > in print context) < concatenation < + - < * / % < unary ! + - (operand at the ^ level) < ^ (right) < postfix ++ -- < $ (operand primary) < grouping; `expr | getline` wraps the ?: level and exists only outside print context; a recursive-descent parser's grouping is exactly this structure, so equality decides grouping for every expression", ruleGrammar)
}

type gLevel struct {
	fn     string
	ops    []string
	assoc  string
	left   string
	rights []string
	node   string
	issues []string
}

type gram struct {
	c     *Ctx
	info  *types.Info
	decls map[string]*ast.FuncDecl
}

func (g *gram) tokName(e ast.Expr) string {
	if se, ok := e.(*ast.SelectorExpr); ok {
		if id, ok := se.X.(*ast.Ident); ok && id.Name == "lexer" {
			return se.Sel.Name
		}
	}
	return ""
}

// methodValue: p.X used as a value -> "X"
func methodValue(e ast.Expr) string {
	if se, ok := e.(*ast.SelectorExpr); ok {
		if _, ok := se.X.(*ast.Ident); ok {
			return se.Sel.Name
		}
	}
	return ""
}

type gEnv struct {
	funcs map[string]string // func-typed parameter name -> bound method name
	toks  []string          // tokens bound to a variadic token parameter
	tokP  string            // name of that parameter
}

// resolve a callee expression to a grammar function name under env.
func (g *gram) callee(call *ast.CallExpr, env *gEnv, self string) string {
	switch f := call.Fun.(type) {
	case *ast.Ident:
		if v, ok := env.funcs[f.Name]; ok {
			return v
		}
	case *ast.SelectorExpr:
		name := f.Sel.Name
		if _, ok := g.decls[name]; !ok {
			return ""
		}
		// helper applied to the same bound function(s): p._assign(higher) inside _assign
		if name == self {
			return "self"
		}
		// p.regexStr(higher) parses either a regex or `higher`
		if name == "regexStr" && len(call.Args) == 1 {
			if id, ok := call.Args[0].(*ast.Ident); ok {
				if v, ok := env.funcs[id.Name]; ok {
					return v
				}
			}
			if mv := methodValue(call.Args[0]); mv != "" {
				return mv
			}
		}
		if name == "exprList" && len(call.Args) == 1 {
			if mv := methodValue(call.Args[0]); mv != "" {
				return mv
			}
		}
		return name
	}
	return ""
}

func (g *gram) returnsExpr(fd *ast.FuncDecl) bool {
	if fd.Type.Results == nil || len(fd.Type.Results.List) != 1 {
		return false
	}
	t := g.info.TypeOf(fd.Type.Results.List[0].Type)
	return t != nil && (types.TypeString(t, func(*types.Package) string { return "" }) == "Expr" || strings.HasSuffix(types.TypeString(t, nil), "ast.Expr"))
}

// level analyses function `name` under env.
func (g *gram) level(name string, env *gEnv, depth int) *gLevel {
	lv := &gLevel{fn: name}
	fd := g.decls[name]
	if fd == nil || fd.Body == nil || depth > 4 {
		lv.issues = append(lv.issues, "function "+name+" not found")
		return lv
	}
	// A: single return of a helper call
	if len(fd.Body.List) == 1 {
		if ret, ok := fd.Body.List[0].(*ast.ReturnStmt); ok && len(ret.Results) == 1 {
			if call, ok := ret.Results[0].(*ast.CallExpr); ok {
				if h := methodValue(call.Fun); h != "" && g.decls[h] != nil {
					hd := g.decls[h]
					ne := &gEnv{funcs: map[string]string{}}
					// map parameters
					var params []*ast.Field
					for _, f := range hd.Type.Params.List {
						for range f.Names {
							params = append(params, f)
						}
					}
					pi := 0
					var pnames []string
					for _, f := range hd.Type.Params.List {
						for _, nm := range f.Names {
							pnames = append(pnames, nm.Name)
						}
					}
					for _, a := range call.Args {
						if pi >= len(params) {
							pi = len(params) - 1
						}
						pf := params[pi]
						_, variadic := pf.Type.(*ast.Ellipsis)
						if mv := methodValue(a); mv != "" && g.decls[mv] != nil {
							ne.funcs[pnames[pi]] = mv
						} else if id, ok := a.(*ast.Ident); ok && env != nil && env.funcs[id.Name] != "" {
							ne.funcs[pnames[pi]] = env.funcs[id.Name]
						} else if t := g.tokName(a); t != "" {
							ne.toks = append(ne.toks, t)
							ne.tokP = pnames[pi]
						}
						if !variadic {
							pi++
						}
					}
					sub := g.level(h, ne, depth+1)
					sub.fn = name
					return sub
				}
			}
		}
	}
	if env == nil {
		env = &gEnv{funcs: map[string]string{}}
	}
	// B: body analysis
	self := name
	var stmts []ast.Stmt = fd.Body.List
	// left operand: first `x := CALL` whose callee is a grammar function
	for _, s := range stmts {
		as, ok := s.(*ast.AssignStmt)
		if !ok || len(as.Rhs) != 1 {
			continue
		}
		call, ok := as.Rhs[0].(*ast.CallExpr)
		if !ok {
			continue
		}
		if cal := g.callee(call, env, self); cal != "" {
			lv.left = cal
			break
		}
	}
	// the operator construct: first top-level for/if whose condition tests the token
	for _, s := range stmts {
		var cond ast.Expr
		var body *ast.BlockStmt
		kind := ""
		switch x := s.(type) {
		case *ast.ForStmt:
			cond, body, kind = x.Cond, x.Body, "loop"
		case *ast.IfStmt:
			cond, body, kind = x.Cond, x.Body, "if"
		default:
			continue
		}
		if cond == nil || !strings.Contains(types.ExprString(cond), "p.tok") && !strings.Contains(types.ExprString(cond), "p.matches") {
			continue
		}
		// tokens
		ast.Inspect(cond, func(n ast.Node) bool {
			switch x := n.(type) {
			case *ast.CallExpr:
				if methodValue(x.Fun) == "matches" {
					if x.Ellipsis.IsValid() {
						lv.ops = append(lv.ops, env.toks...)
					}
					for _, a := range x.Args {
						if t := g.tokName(a); t != "" {
							lv.ops = append(lv.ops, t)
						}
					}
				}
			case *ast.BinaryExpr:
				if x.Op == token.EQL && types.ExprString(x.X) == "p.tok" {
					if t := g.tokName(x.Y); t != "" {
						lv.ops = append(lv.ops, t)
					}
				}
			}
			return true
		})
		// right operands and node
		ast.Inspect(body, func(n ast.Node) bool {
			switch x := n.(type) {
			case *ast.CallExpr:
				if cal := g.callee(x, env, self); cal != "" && g.isExprParser(cal) {
					lv.rights = append(lv.rights, cal)
				}
			case *ast.CompositeLit:
				if nt := named(g.info.TypeOf(x)); nt != nil && lv.node == "" {
					lv.node = nt.Obj().Name()
					// a literal operator (Op: lexer.CONCAT / lexer.POW) replaces start-token sets
					for _, el := range x.Elts {
						if kv, ok := el.(*ast.KeyValueExpr); ok && isIdent(kv.Key, "Op") {
							if t := g.tokName(kv.Value); t != "" {
								if t == "CONCAT" {
									lv.ops = []string{"CONCAT"}
								}
							}
						}
					}
				}
			}
			return true
		})
		switch {
		case kind == "loop":
			lv.assoc = "left"
		case containsStr(lv.rights, "self"):
			lv.assoc = "right"
		default:
			lv.assoc = "none"
		}
		break
	}
	sort.Strings(lv.ops)
	lv.ops = uniq(lv.ops)
	return lv
}

func (g *gram) isExprParser(name string) bool {
	if name == "self" {
		return true
	}
	fd := g.decls[name]
	return fd != nil && g.returnsExpr(fd)
}

func containsStr(xs []string, s string) bool {
	for _, x := range xs {
		if x == s {
			return true
		}
	}
	return false
}

func uniq(xs []string) []string {
	var out []string
	for i, x := range xs {
		if i == 0 || x != xs[i-1] {
			out = append(out, x)
		}
	}
	return out
}

type gWant struct {
	ops   string
	assoc string
	what  string
}

func ruleGrammar(c *Ctx) {
	pp := c.pkg("parser")
	g := &gram{c: c, info: pp.TypesInfo, decls: map[string]*ast.FuncDecl{}}
	for _, fd := range c.allFuncDecls("parser") {
		if fd.Recv != nil {
			g.decls[fd.Name.Name] = fd
		}
	}
	// entry points: the function simpleStmt's default case calls (general), and the one the print argument list uses
	general, printCtx := "expr", "printExpr"
	if g.decls[general] == nil || g.decls[printCtx] == nil {
		c.undecided("anchor:entry", token.NoPos, "entry points expr/printExpr not found")
		return
	}
	assignOps := "ADD_ASSIGN ASSIGN DIV_ASSIGN MOD_ASSIGN MUL_ASSIGN POW_ASSIGN SUB_ASSIGN"
	chainFor := func(entry string) []*gLevel {
		var chain []*gLevel
		cur := entry
		seen := map[string]bool{}
		for cur != "" && !seen[cur] && len(chain) < 24 {
			seen[cur] = true
			if cur == "primary" {
				break
			}
			var lv *gLevel
			if cur == "getline" {
				lv = g.getlineLevel()
			} else {
				lv = g.level(cur, nil, 0)
			}
			chain = append(chain, lv)
			cur = lv.left
		}
		return chain
	}
	check := func(ctx, entry string, want []gWant) {
		chain := chainFor(entry)
		var got []string
		for _, lv := range chain {
			got = append(got, fmt.Sprintf("%s[%s]%s", lv.fn, strings.Join(lv.ops, " "), lv.assoc))
		}
		if len(chain) != len(want) {
			c.bad("chain:"+ctx+":length", g.decls[entry].Pos(), "the %s expression grammar has %d precedence levels (%s), the POSIX table has %d", ctx, len(chain), strings.Join(got, " < "), len(want))
			return
		}
		for i, w := range want {
			lv := chain[i]
			key := fmt.Sprintf("level:%s:%d:%s", ctx, i+1, strings.ReplaceAll(w.ops, " ", ","))
			pos := token.NoPos
			if fd := g.decls[lv.fn]; fd != nil {
				pos = fd.Pos()
			}
			if len(lv.issues) > 0 {
				c.undecided(key, pos, "%s: %v", lv.fn, lv.issues)
				continue
			}
			gotOps := strings.Join(lv.ops, " ")
			switch {
			case gotOps != w.ops:
				c.bad(key, pos, "%s context, precedence level %d (%s): expected the operators {%s} here, the parser's %s() handles {%s}: operators are grouped at the wrong level", ctx, i+1, w.what, w.ops, lv.fn, gotOps)
			case lv.assoc != w.assoc:
				c.bad(key, pos, "%s context, level %d (%s): operators {%s} must be %s-associative but %s() parses them as %s (loop = left, recursion into itself = right, single test = none)", ctx, i+1, w.what, w.ops, w.assoc, lv.fn, lv.assoc)
			default:
				c.ok(key, pos, "%s(): {%s} %s-assoc, operands %v, left operand level %s", lv.fn, gotOps, lv.assoc, lv.rights, lv.left)
			}
		}
		// operand-level details
		for i, lv := range chain {
			next := "primary"
			if i+1 < len(chain) {
				next = chain[i+1].fn
			}
			key := fmt.Sprintf("operands:%s:%s", ctx, strings.Join(lv.ops, ","))
			switch strings.Join(lv.ops, " ") {
			case assignOps:
				c.check(containsStr(lv.rights, "self") && lv.left == next, key, g.decls[entry].Pos(), "assignment: right operand re-enters the assignment level of the same context", "the right-hand side of an assignment is not parsed by the assignment level of the same context (rights "+fmt.Sprint(lv.rights)+"): `a = b = c` would not group to the right, or an assignment inside print would parse `>` as a comparison")
			case "QUESTION":
				okArms := len(lv.rights) == 2 && lv.rights[0] == entry && lv.rights[1] == entry
				c.check(okArms, key, g.decls[entry].Pos(), "?: both arms re-enter the lowest level of the "+ctx+" context ("+entry+")", "the arms of ?: are parsed by "+fmt.Sprint(lv.rights)+" instead of the context's own lowest level "+entry+": `a ? b : c ? d : e` would not group to the right, or (print context) a `>` after the false arm would be taken as a comparison")
			case "MATCH NOT_MATCH":
				c.check(len(lv.rights) == 1 && lv.rights[0] == lv.left, key, g.decls[entry].Pos(), "~ !~: both operands at the next level (non-associative)", "the right operand of ~ is parsed by "+fmt.Sprint(lv.rights)+" but the left by "+lv.left)
			case "POW":
				c.check(len(lv.rights) == 1 && lv.rights[0] == "self", key, g.decls[entry].Pos(), "^: right operand re-enters the ^ level (right-associative)", "the right operand of ^ is parsed by "+fmt.Sprint(lv.rights))
			default:
				if lv.assoc == "left" || lv.assoc == "none" {
					okR := true
					for _, r := range lv.rights {
						if r != lv.left && !(lv.ops[0] == "IN") && !(lv.ops[0] == "DECR") {
							okR = false
						}
					}
					c.check(okR && (lv.left == next), key, g.decls[entry].Pos(), fmt.Sprintf("{%s}: operands at the next level %s", strings.Join(lv.ops, " "), lv.left), fmt.Sprintf("{%s}: left operand parsed by %s, right operand(s) by %v: they must be the same next-higher level", strings.Join(lv.ops, " "), lv.left, lv.rights))
				}
			}
		}
	}
	tail := []gWant{
		{"OR", "left", "||"}, {"AND", "left", "&&"}, {"IN", "left", "in"}, {"MATCH NOT_MATCH", "none", "~ !~"},
	}
	upper := []gWant{
		{"CONCAT", "left", "concatenation"}, {"ADD SUB", "left", "+ -"}, {"DIV MOD MUL", "left", "* / %"}, {"POW", "right", "^"}, {"DECR INCR", "none", "postfix ++ --"},
	}
	var wantExpr, wantPrint []gWant
	wantExpr = append(wantExpr, gWant{assignOps, "right", "assignment"}, gWant{"PIPE", "none", "expr | getline"}, gWant{"QUESTION", "none", "?:"})
	wantExpr = append(wantExpr, tail...)
	wantExpr = append(wantExpr, gWant{"EQUALS GREATER GTE LESS LTE NOT_EQUALS", "none", "relational"})
	wantExpr = append(wantExpr, upper...)
	wantPrint = append(wantPrint, gWant{assignOps, "right", "assignment"}, gWant{"QUESTION", "none", "?:"})
	wantPrint = append(wantPrint, tail...)
	wantPrint = append(wantPrint, gWant{"EQUALS GTE LESS LTE NOT_EQUALS", "none", "relational without >"})
	wantPrint = append(wantPrint, upper...)
	check("general", general, wantExpr)
	check("print", printCtx, wantPrint)

	// the print statement parses its arguments and only them with the print-context entry
	if fd := g.decls["simpleStmt"]; fd != nil {
		usesPrint := false
		ast.Inspect(fd.Body, func(n ast.Node) bool {
			if call, ok := n.(*ast.CallExpr); ok && methodValue(call.Fun) == "exprList" && len(call.Args) == 1 && methodValue(call.Args[0]) == printCtx {
				usesPrint = true
			}
			return true
		})
		c.check(usesPrint, "print-args", fd.Pos(), "print/printf arguments are parsed with the print-context grammar", "print/printf arguments are not parsed with the print-context grammar: an unparenthesised > would be a comparison instead of a redirection")
	}

	// primary: prefix operators
	pf := g.decls["primary"]
	if pf == nil {
		c.undecided("anchor:primary", token.NoPos, "primary not found")
		return
	}
	powFn := ""
	for _, lv := range chainFor(general) {
		if strings.Join(lv.ops, " ") == "POW" {
			powFn = lv.fn
		}
	}
	prefix := map[string][]string{}
	ast.Inspect(pf.Body, func(n ast.Node) bool {
		cc, ok := n.(*ast.CaseClause)
		if !ok || cc.List == nil {
			return true
		}
		var toks []string
		for _, e := range cc.List {
			if t := g.tokName(e); t != "" {
				toks = append(toks, t)
			}
		}
		if len(toks) == 0 {
			return true
		}
		sort.Strings(toks)
		var callees []string
		ast.Inspect(&ast.BlockStmt{List: cc.Body}, func(m ast.Node) bool {
			if call, ok := m.(*ast.CallExpr); ok {
				if cal := g.callee(call, &gEnv{funcs: map[string]string{}}, "primary-self"); cal != "" && (g.isExprParser(cal) || cal == "optionalLValue") {
					callees = append(callees, cal)
				}
			}
			return true
		})
		prefix[strings.Join(toks, " ")] = callees
		return true
	})
	un := prefix["ADD NOT SUB"]
	c.check(len(un) == 1 && un[0] == powFn && powFn != "", "prefix:unary", pf.Pos(), "unary ! + - parse their operand at the ^ level ("+powFn+"), so -2^2 is -(2^2) and !a^b is !(a^b)", fmt.Sprintf("the unary operators ! + - must share one case of primary() and parse their operand at the ^ level (%s); found operand parser(s) %v (cases: %v)", powFn, un, prefixKeys(prefix)))
	d := prefix["DOLLAR"]
	c.check(len(d) >= 1 && d[0] == "primary", "prefix:dollar", pf.Pos(), "$ takes a primary as its operand", fmt.Sprintf("$ parses its operand with %v instead of primary()", d))
	lp := prefix["LPAREN"]
	c.check(len(lp) >= 1 && lp[0] == general, "prefix:grouping", pf.Pos(), "( ... ) re-enters the general expression grammar", fmt.Sprintf("a parenthesised expression is parsed with %v instead of the general entry %s", lp, general))
	pi := prefix["DECR INCR"]
	c.check(len(pi) == 1 && pi[0] == "optionalLValue", "prefix:incr", pf.Pos(), "prefix ++/-- take an lvalue", fmt.Sprintf("prefix ++/-- parse their operand with %v", pi))
	// pendingGetlineLeft hand-off: set only in getline(), consumed first in primary()
	if gl := g.decls["getline"]; gl != nil {
		setters := map[string]bool{}
		for name, fd := range g.decls {
			ast.Inspect(fd.Body, func(n ast.Node) bool {
				if as, ok := n.(*ast.AssignStmt); ok {
					for _, l := range as.Lhs {
						if strings.HasSuffix(types.ExprString(l), ".pendingGetlineLeft") {
							setters[name] = true
						}
					}
				}
				return true
			})
		}
		okSet := len(setters) == 2 && setters["getline"] && setters["primary"]
		first := false
		if len(pf.Body.List) > 0 {
			if is, ok := pf.Body.List[0].(*ast.IfStmt); ok && strings.Contains(types.ExprString(is.Cond), "pendingGetlineLeft") {
				first = true
			}
		}
		c.check(okSet && first, "getline-handoff", gl.Pos(), "the pending left operand of `| getline` is set only by getline() and consumed first thing in primary()", fmt.Sprintf("the `expr | getline` hand-off is written by %v and/or not consumed at the start of primary(): the left operand could be attached to the wrong expression", keys(setters)))
	}
}

func prefixKeys(m map[string][]string) []string {
	var ks []string
	for k := range m {
		ks = append(ks, k)
	}
	sort.Strings(ks)
	return ks
}

// getlineLevel: the `cond | getline` wrapper.
func (g *gram) getlineLevel() *gLevel {
	lv := &gLevel{fn: "getline", assoc: "none", node: "GetlineExpr"}
	fd := g.decls["getline"]
	if fd == nil {
		lv.issues = append(lv.issues, "getline() not found")
		return lv
	}
	env := &gEnv{funcs: map[string]string{}}
	for _, s := range fd.Body.List {
		switch x := s.(type) {
		case *ast.AssignStmt:
			if len(x.Rhs) == 1 {
				if call, ok := x.Rhs[0].(*ast.CallExpr); ok {
					if cal := g.callee(call, env, "getline"); cal != "" && lv.left == "" {
						lv.left = cal
					}
				}
			}
		case *ast.IfStmt:
			if be, ok := x.Cond.(*ast.BinaryExpr); ok && types.ExprString(be.X) == "p.tok" {
				if t := g.tokName(be.Y); t != "" {
					lv.ops = append(lv.ops, t)
				}
			}
			ast.Inspect(x.Body, func(n ast.Node) bool {
				if call, ok := n.(*ast.CallExpr); ok {
					if cal := g.callee(call, env, "getline"); cal != "" && g.isExprParser(cal) {
						lv.rights = append(lv.rights, cal)
					}
				}
				return true
			})
		}
	}
	return lv
}
