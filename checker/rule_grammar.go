package main

import (
	"fmt"
	"go/token"
	"sort"
	"strings"

	"golang.org/x/tools/go/ssa"
)

// R-GRAMMAR (C04): the precedence chain of the recursive-descent expression parser, extracted and
// compared with the POSIX table.

func init() {
	register("R-GRAMMAR", "the expression grammar as implemented, obtained by evaluating each level function of the recursive-descent parser once per lexer token on its SSA form (the token is known from the point the left operand was parsed until a call that can advance the lexer; pure predicates are evaluated on constants; helpers that take the parsed operand are entered; a function that forwards to a helper with bound method values and tokens is resolved to it): per level the operator tokens it consumes, associativity (control returns to a block seen before the operator = left, the right operand is the level itself = right, else none) and operand levels; the chains from the general and the print-context entry points must equal the POSIX table: assignment (right) < ?: (right, arms at the context's lowest level) < || < && < in < ~ !~ (non-assoc) < relational (non-assoc; without > in print context) < concatenation < + - < * / % < unary ! + - (operand at the ^ level, on every path) < ^ (right) < postfix ++ -- < $ (operand primary) < grouping; `expr | getline` wraps the ?: level and exists only outside print context; a recursive-descent parser's grouping is exactly this structure, so equality decides grouping for every expression", ruleGrammar)
}

type gLevel struct {
	fn     string
	ops    []string
	assoc  string
	left   string
	rights []string
	node   string
	issues []string
}

func containsStr(xs []string, s string) bool {
	for _, x := range xs {
		if x == s {
			return true
		}
	}
	return false
}

func uniq(xs []string) []string {
	var out []string
	for i, x := range xs {
		if i == 0 || x != xs[i-1] {
			out = append(out, x)
		}
	}
	return out
}

type gWant struct {
	ops   string
	assoc string
	what  string
}

func ruleGrammar(c *Ctx) {
	g := newGssa(c)
	if g == nil {
		c.undecided("anchor:parser-ssa", token.NoPos, "package parser (struct parser, field tok, ast.Expr, lexer tokens) not resolvable")
		return
	}
	posOf := func(name string) token.Pos {
		if fn := g.methods[name]; fn != nil {
			return fn.Pos()
		}
		return token.NoPos
	}
	// entry points: the function simpleStmt's default case calls (general), and the one the print argument list uses
	general, printCtx := "expr", "printExpr"
	if g.methods[general] == nil || g.methods[printCtx] == nil {
		c.undecided("anchor:entry", token.NoPos, "entry points expr/printExpr not found")
		return
	}
	primary := "primary"
	assignOps := "ADD_ASSIGN ASSIGN DIV_ASSIGN MOD_ASSIGN MUL_ASSIGN POW_ASSIGN SUB_ASSIGN"
	chainFor := func(entry string) []*gLevel { return g.chain(entry, primary) }
	check := func(ctx, entry string, want []gWant) {
		chain := chainFor(entry)
		var got []string
		for _, lv := range chain {
			got = append(got, fmt.Sprintf("%s[%s]%s", lv.fn, strings.Join(lv.ops, " "), lv.assoc))
		}
		if len(chain) != len(want) {
			c.bad("chain:"+ctx+":length", posOf(entry), "the %s expression grammar has %d precedence levels (%s), the POSIX table has %d", ctx, len(chain), strings.Join(got, " < "), len(want))
			return
		}
		for i, w := range want {
			lv := chain[i]
			key := fmt.Sprintf("level:%s:%d:%s", ctx, i+1, strings.ReplaceAll(w.ops, " ", ","))
			pos := posOf(lv.fn)
			if len(lv.issues) > 0 {
				c.undecided(key, pos, "%s: %v", lv.fn, lv.issues)
				continue
			}
			gotOps := strings.Join(lv.ops, " ")
			switch {
			case gotOps != w.ops:
				c.bad(key, pos, "%s context, precedence level %d (%s): expected the operators {%s} here, the parser's %s() handles {%s}: operators are grouped at the wrong level", ctx, i+1, w.what, w.ops, lv.fn, gotOps)
			case lv.assoc != w.assoc:
				c.bad(key, pos, "%s context, level %d (%s): operators {%s} must be %s-associative but %s() parses them as %s (loop = left, recursion into itself = right, single test = none)", ctx, i+1, w.what, w.ops, w.assoc, lv.fn, lv.assoc)
			default:
				c.ok(key, pos, "%s(): {%s} %s-assoc, operands %v, left operand level %s", lv.fn, gotOps, lv.assoc, lv.rights, lv.left)
			}
		}
		// operand-level details
		for i, lv := range chain {
			next := "primary"
			if i+1 < len(chain) {
				next = chain[i+1].fn
			}
			key := fmt.Sprintf("operands:%s:%s", ctx, strings.Join(lv.ops, ","))
			switch strings.Join(lv.ops, " ") {
			case assignOps:
				c.check(containsStr(lv.rights, "self") && lv.left == next, key, posOf(entry), "assignment: right operand re-enters the assignment level of the same context", "the right-hand side of an assignment is not parsed by the assignment level of the same context (rights "+fmt.Sprint(lv.rights)+"): `a = b = c` would not group to the right, or an assignment inside print would parse `>` as a comparison")
			case "QUESTION":
				okArms := len(lv.rights) == 2 && lv.rights[0] == entry && lv.rights[1] == entry
				c.check(okArms, key, posOf(entry), "?: both arms re-enter the lowest level of the "+ctx+" context ("+entry+")", "the arms of ?: are parsed by "+fmt.Sprint(lv.rights)+" instead of the context's own lowest level "+entry+": `a ? b : c ? d : e` would not group to the right, or (print context) a `>` after the false arm would be taken as a comparison")
			case "MATCH NOT_MATCH":
				c.check(len(lv.rights) == 1 && lv.rights[0] == lv.left, key, posOf(entry), "~ !~: both operands at the next level (non-associative)", "the right operand of ~ is parsed by "+fmt.Sprint(lv.rights)+" but the left by "+lv.left)
			case "POW":
				c.check(len(lv.rights) == 1 && lv.rights[0] == "self", key, posOf(entry), "^: right operand re-enters the ^ level (right-associative)", "the right operand of ^ is parsed by "+fmt.Sprint(lv.rights))
			default:
				if lv.assoc == "left" || lv.assoc == "none" {
					okR := true
					for _, r := range lv.rights {
						if r != lv.left && !(lv.ops[0] == "IN") && !(lv.ops[0] == "DECR") {
							okR = false
						}
					}
					c.check(okR && (lv.left == next), key, posOf(entry), fmt.Sprintf("{%s}: operands at the next level %s", strings.Join(lv.ops, " "), lv.left), fmt.Sprintf("{%s}: left operand parsed by %s, right operand(s) by %v: they must be the same next-higher level", strings.Join(lv.ops, " "), lv.left, lv.rights))
				}
			}
		}
	}
	tail := []gWant{
		{"OR", "left", "||"}, {"AND", "left", "&&"}, {"IN", "left", "in"}, {"MATCH NOT_MATCH", "none", "~ !~"},
	}
	upper := []gWant{
		{"CONCAT", "left", "concatenation"}, {"ADD SUB", "left", "+ -"}, {"DIV MOD MUL", "left", "* / %"}, {"POW", "right", "^"}, {"DECR INCR", "none", "postfix ++ --"},
	}
	var wantExpr, wantPrint []gWant
	wantExpr = append(wantExpr, gWant{assignOps, "right", "assignment"}, gWant{"PIPE", "none", "expr | getline"}, gWant{"QUESTION", "none", "?:"})
	wantExpr = append(wantExpr, tail...)
	wantExpr = append(wantExpr, gWant{"EQUALS GREATER GTE LESS LTE NOT_EQUALS", "none", "relational"})
	wantExpr = append(wantExpr, upper...)
	wantPrint = append(wantPrint, gWant{assignOps, "right", "assignment"}, gWant{"QUESTION", "none", "?:"})
	wantPrint = append(wantPrint, tail...)
	wantPrint = append(wantPrint, gWant{"EQUALS GTE LESS LTE NOT_EQUALS", "none", "relational without >"})
	wantPrint = append(wantPrint, upper...)
	check("general", general, wantExpr)
	check("print", printCtx, wantPrint)

	// the print statement parses its arguments and only them with the print-context entry
	if fn := g.methods["simpleStmt"]; fn != nil {
		usesPrint := false
		allInstrs(fn, func(in ssa.Instruction) {
			call, ok := in.(*ssa.Call)
			if !ok {
				return
			}
			cal := call.Call.StaticCallee()
			if cal == nil || cal.Pkg != g.pkg || g.returnsExpr(cal) {
				return
			}
			for _, a := range call.Call.Args {
				if mc, ok := a.(*ssa.MakeClosure); ok {
					if f, ok := mc.Fn.(*ssa.Function); ok && boundMethod(f).Name() == printCtx {
						usesPrint = true
					}
				}
			}
		})
		c.check(usesPrint, "print-args", fn.Pos(), "print/printf arguments are parsed with the print-context grammar", "print/printf arguments are not parsed with the print-context grammar: an unparenthesised > would be a comparison instead of a redirection")
	}

	// primary: prefix operators, per token
	pf := g.methods[primary]
	if pf == nil {
		c.undecided("anchor:primary", token.NoPos, "primary not found")
		return
	}
	powFn := ""
	for _, lv := range chainFor(general) {
		if strings.Join(lv.ops, " ") == "POW" {
			powFn = lv.fn
		}
	}
	prefix := g.prefixOperands(primary)
	// every non-error path taken for the token must parse the expected operand
	all := func(tok string, pred func(seq []string) bool) (bool, string) {
		seqs, have := prefix[tok]
		if !have || len(seqs) == 0 {
			return false, tok + ": no path"
		}
		okAll := true
		var got []string
		for _, s := range seqs {
			got = append(got, "["+strings.Join(s, " ")+"]")
			if !pred(s) {
				okAll = false
			}
		}
		return okAll, tok + ":" + strings.Join(got, "|")
	}
	unOK := powFn != ""
	var unGot []string
	for _, t := range []string{"NOT", "ADD", "SUB"} {
		ok, got := all(t, func(s []string) bool { return len(s) == 1 && s[0] == powFn })
		unGot = append(unGot, got)
		unOK = unOK && ok
	}
	c.check(unOK, "prefix:unary", pf.Pos(), "unary ! + - parse their operand at the ^ level ("+powFn+") on every path, so -2^2 is -(2^2) and !a^b is !(a^b)", fmt.Sprintf("the unary operators ! + - must parse their operand at the ^ level (%s) on every path; found operand parser(s) %v", powFn, unGot))
	dOK, dGot := all("DOLLAR", func(s []string) bool { return len(s) >= 1 && s[0] == primary })
	c.check(dOK, "prefix:dollar", pf.Pos(), "$ takes a primary as its operand", fmt.Sprintf("$ parses its operand with %v instead of primary()", dGot))
	lpOK, lpGot := all("LPAREN", func(s []string) bool { return len(s) >= 1 && s[0] == general })
	c.check(lpOK, "prefix:grouping", pf.Pos(), "( ... ) re-enters the general expression grammar", fmt.Sprintf("a parenthesised expression is parsed with %v instead of the general entry %s", lpGot, general))
	piOK := true
	var piGot []string
	for _, t := range []string{"INCR", "DECR"} {
		ok, got := all(t, func(s []string) bool { return len(s) == 1 && s[0] == "optionalLValue" })
		piGot = append(piGot, got)
		piOK = piOK && ok
	}
	c.check(piOK, "prefix:incr", pf.Pos(), "prefix ++/-- take an lvalue", fmt.Sprintf("prefix ++/-- parse their operand with %v", piGot))
	// pendingGetlineLeft hand-off: a non-nil value is stored only by the `| getline` level, and primary() looks
	// at it before anything can advance the lexer
	if g.pendField >= 0 {
		glLevel := ""
		for _, lv := range chainFor(general) {
			if strings.Join(lv.ops, " ") == "PIPE" {
				glLevel = lv.fn
			}
		}
		setters := map[string]bool{}
		for name, fn := range g.methods {
			name := name
			allInstrs(fn, func(in ssa.Instruction) {
				st, ok := in.(*ssa.Store)
				if !ok {
					return
				}
				fa, ok := st.Addr.(*ssa.FieldAddr)
				if !ok || fa.Field != g.pendField || !g.isParserPtr(fa.X.Type()) {
					return
				}
				if k, isC := st.Val.(*ssa.Const); isC && k.Value == nil {
					return // a reset to nil
				}
				setters[name] = true
			})
		}
		okSet := len(setters) == 1 && setters[glLevel] && glLevel != ""
		first := false
		if eb := pf.Blocks[0]; len(eb.Instrs) > 0 {
			if iff, ok := eb.Instrs[len(eb.Instrs)-1].(*ssa.If); ok {
				if bo, ok := iff.Cond.(*ssa.BinOp); ok {
					for _, side := range []ssa.Value{bo.X, bo.Y} {
						if ld, ok := side.(*ssa.UnOp); ok && ld.Op == token.MUL {
							if fa, ok := ld.X.(*ssa.FieldAddr); ok && fa.Field == g.pendField {
								first = true
							}
						}
					}
				}
			}
			for _, in := range eb.Instrs {
				if call, ok := in.(ssa.CallInstruction); ok {
					if cal := call.Common().StaticCallee(); cal == nil || g.advancer[cal] {
						first = false
					}
				}
			}
		}
		c.check(okSet && first, "getline-handoff", posOf(glLevel), "the pending left operand of `| getline` is set only by the `| getline` level and looked at first thing in primary()", fmt.Sprintf("the `expr | getline` hand-off is written by %v and/or not consumed at the start of primary(): the left operand could be attached to the wrong expression", keys(setters)))
	}
}

func prefixKeys(m map[string][]string) []string {
	var ks []string
	for k := range m {
		ks = append(ks, k)
	}
	sort.Strings(ks)
	return ks
}

