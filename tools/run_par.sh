#!/bin/sh
# Parallel version of run_seeded.sh / run_refactors.sh: distributes the patches over N scratch worktrees of /repo under
# /tmp (removed afterwards) and runs `sverif all -repo <worktree>` on each. /repo itself is not touched.
# usage: run_par.sh seeded|refactors [id-prefix] [N] [binary]
export GOFLAGS=-mod=mod GOPROXY=off GOSUMDB=off GOTOOLCHAIN=local GOWORK=off
kind=$1; prefix=$2; N=${3:-8}; BIN=${4:-/verif/bin/sverif}
out=/tmp/run_par_$$; mkdir -p $out
head=$(git -C /repo rev-parse HEAD)
ls -d /verif/$kind/$prefix*/ 2>/dev/null | sort > $out/list
worker() {
  k=$1; wt=/tmp/wt_par_$$_$k
  git -C /repo worktree add -q --detach $wt HEAD || exit 2
  mkdir -p $out/verif_$k; cp /verif/known_findings.json $out/verif_$k/
  awk -v n=$N -v k=$k 'NR%n==k' $out/list | while read d; do
    id=$(basename $d)
    if [ -f $d/OBSOLETE ]; then echo "$id: OBSOLETE"; continue; fi
    [ -f $d/patch.diff ] || continue
    # an entry written against an earlier commit of /repo whose patch conflicts with a later fix: commit carries a file
    # base_commit; it is decided on that commit, and what that commit itself violates (the defects repaired since) is
    # subtracted from the verdict
    base=""; [ -f $d/base_commit ] && base=$(cat $d/base_commit)
    if [ -n "$base" ]; then git -C $wt checkout -q --detach $base; fi
    if ! git -C $wt apply $d/patch.diff 2>/dev/null; then echo "$id: SKIP (patch does not apply)"; git -C $wt checkout -q -- .; git -C $wt clean -fdq; [ -n "$base" ] && git -C $wt checkout -q --detach $head; continue; fi
    o=$($BIN all -repo $wt -verif $out/verif_$k 2>&1)
    git -C $wt checkout -q -- . ; git -C $wt clean -fdq
    if [ -n "$base" ]; then
      if [ ! -f $out/base_$base.keys ]; then
        $BIN all -repo $wt -verif $out/verif_$k 2>&1 | grep -E "VIOLATED|UNDECIDED" | grep -o " R-[A-Z0-9-]* \[[^]]*\]" | sort -u > $out/base_$base.keys.$k; cp $out/base_$base.keys.$k $out/base_$base.keys
      fi
      # drop the obligations the base commit violates by itself, and the VIOLATION lines of properties left without any
      o=$(echo "$o" | grep -E "VIOLATED|UNDECIDED" | grep -v -F -f $out/base_$base.keys)
      o=$(echo "$o"; echo "$o" | python3 /verif/tools/props_of.py)
      git -C $wt checkout -q --detach $head
    fi
    props=$(echo "$o" | grep -o "VIOLATION property=C[0-9]*" | sort -u | sed 's/VIOLATION property=//' | tr '\n' ' ')
    rules=$(echo "$o" | grep -E "VIOLATED|UNDECIDED" | grep -o " R-[A-Z0-9-]* \[[^]]*\]" | sort -u | head -5 | tr '\n' ';')
    own=$(echo $id | cut -d- -f1)
    if [ "$kind" = seeded ]; then
      if [ -z "$props" ]; then echo "$id: MISSED"
      elif echo " $props" | grep -q " $own "; then echo "$id: caught by [$props] $rules"
      else echo "$id: NOT-OWN caught by [$props] $rules"; fi
    else
      if [ -z "$props" ]; then echo "$id: silent"; else echo "$id: ALARM [$props] $rules"; fi
    fi
  done > $out/res_$k
  git -C /repo worktree remove --force $wt
}
k=0; while [ $k -lt $N ]; do worker $k & k=$((k+1)); done; wait
cat $out/res_* | sort -V
rm -rf $out
