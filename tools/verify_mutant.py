#!/usr/bin/env python3
"""verify_mutant.py <worktree> <mutant_dir> <seeded_id> <property> [caught_by]
Independently confirms a sub-agent's mutant in its scratch worktree: patch applies, builds, baseline suite passes,
demo fails with the patch and passes without it. On success copies it to /verif/seeded/<seeded_id>/ with meta.json extended."""
import json, os, shutil, subprocess, sys, glob, re
wt, md, sid, prop = sys.argv[1:5]
caught = sys.argv[5] if len(sys.argv) > 5 else ""
env = dict(os.environ, GOFLAGS="-mod=mod", GOPROXY="off", GOSUMDB="off", GOTOOLCHAIN="local")
def sh(cmd, cwd=wt, timeout=900):
    p = subprocess.run(cmd, shell=True, cwd=cwd, env=env, capture_output=True, text=True, timeout=timeout)
    return p.returncode, (p.stdout + p.stderr)
def clean():
    sh("git checkout -- . && git clean -fdq -e MUTANTS")
meta = json.load(open(f"{md}/meta.json"))
demo_go = os.path.exists(f"{md}/demo_test.go")
def demo_pkg():
    txt = json.dumps(meta)
    for cand in ["interp", "parser", "lexer", "internal/compiler", "internal/resolver", "internal/ast", "internal/cover", "."]:
        if re.search(r"into [`'\"]?%s/?[`'\"]?" % re.escape(cand), txt) or re.search(r"\./%s\b" % re.escape(cand), txt):
            return cand
    src = open(f"{md}/demo_test.go").read()
    m = re.search(r"^package (\w+)", src, re.M)
    name = m.group(1).replace("_test", "")
    return {"interp": "interp", "parser": "parser", "lexer": "lexer", "main": "."}.get(name, name)
def run_demo():
    if demo_go:
        pkg = demo_pkg()
        dst = os.path.join(wt, pkg, "zz_demo_test.go")
        shutil.copy(f"{md}/demo_test.go", dst)
        race = "-race " if "race" in json.dumps(meta).lower() else ""
        rc, out = sh(f"go test {race}-vet=off -count=1 -run 'Test.*' ./{pkg}/ 2>&1")
        os.remove(dst)
        # only the demo's own tests matter: rerun narrowly by names found in the demo file
        names = re.findall(r"^func (Test\w+)", open(f"{md}/demo_test.go").read(), re.M)
        shutil.copy(f"{md}/demo_test.go", dst)
        rc, out = sh(f"go test {race}-vet=off -count=1 -run '^({'|'.join(names)})$' ./{pkg}/ 2>&1")
        os.remove(dst)
        return rc, out
    else:
        rc, out = sh("go build -o /tmp/goawk_demo_" + sid + " . ")
        if rc != 0: return 99, out
        return sh(f"sh {md}/demo.sh /tmp/goawk_demo_{sid} 2>&1")
clean()
rc, out = sh(f"git apply --check {md}/patch.diff")
if rc != 0: print("FAIL: patch does not apply", out); sys.exit(1)
rc_clean, out_clean = run_demo()
sh(f"git apply {md}/patch.diff")
rc, out = sh("go build ./... 2>&1")
if rc != 0: clean(); print("FAIL: does not build", out); sys.exit(1)
rc_base, out_base = sh("python3 /tmp/tools/baseline.py " + wt)
rc_mut, out_mut = run_demo()
clean()
ok = rc_clean == 0 and rc_mut != 0 and rc_base == 0
print(f"clean demo rc={rc_clean}  mutant demo rc={rc_mut}  baseline rc={rc_base} -> {'CONFIRMED' if ok else 'NOT CONFIRMED'}")
if not ok:
    print("--- clean:", out_clean[-600:]); print("--- mutant:", out_mut[-600:]); print("--- baseline:", out_base[-300:]); sys.exit(1)
dst = f"/verif/seeded/{sid}"
os.makedirs(dst, exist_ok=True)
for f in os.listdir(md):
    if os.path.isfile(f"{md}/{f}"): shutil.copy(f"{md}/{f}", dst)
meta.update({"property": prop, "seeded_id": sid, "confirmed_by_main_session": {
    "ran": "tools/verify_mutant.py in the sub-agent's scratch worktree: git apply --check; go build ./...; baseline suite (2544 stable tests, missing=0); demo with and without the patch",
    "demo_without_patch_rc": rc_clean, "demo_with_patch_rc": rc_mut, "baseline_with_patch": out_base.strip().splitlines()[0] if out_base.strip() else ""},
    "caught_by": caught})
json.dump(meta, open(f"{dst}/meta.json", "w"), indent=1)
print("saved", dst)
