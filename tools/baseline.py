#!/usr/bin/env python3
"""Run /repo's pinned test suite and compare with the stable_pass set of /root/.vp/BASELINE.json.
usage: baseline.py [repo_dir]   exit 0 iff every stable_pass test passes."""
import json, subprocess, sys, os
repo = sys.argv[1] if len(sys.argv) > 1 else "/repo"
base = json.load(open("/root/.vp/BASELINE.json"))
want = set(base["stable_pass"])
env = dict(os.environ, GOFLAGS="-mod=mod", GOPROXY="off", GOSUMDB="off", GOTOOLCHAIN="local")
p = subprocess.run(["go", "test", "-json", "-vet=off", "-count=1", "-timeout", "25m", "./..."], cwd=repo, env=env, capture_output=True, text=True)
passed, failed = set(), set()
for line in p.stdout.splitlines():
    if not line.startswith("{"): continue
    try: ev = json.loads(line)
    except Exception: continue
    a, pkg, t = ev.get("Action"), ev.get("Package", ""), ev.get("Test")
    if t is None or a not in ("pass", "fail"): continue
    (passed if a == "pass" else failed).add(pkg + "::" + t)
passed -= failed
missing = sorted(want - passed)
print(f"stable_pass={len(want)} passed_now={len(passed)} missing={len(missing)}")
for m in missing[:40]: print("  MISSING", m)
sys.exit(1 if missing else 0)
