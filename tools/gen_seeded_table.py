#!/usr/bin/env python3
"""gen_seeded_table.py <results.txt>: splice the table of seeded changes into DESIGN.md (section 9).
results.txt is the output of tools/run_seeded.sh (one line per seeded change)."""
import json, re, sys, os, glob
res = {}
for l in open(sys.argv[1]):
    m = re.match(r'(C\d+-m\d+): (caught by \[([^\]]*)\]\s*(.*)|MISSED|SKIP.*|OBSOLETE.*)', l.strip())
    if m:
        res[m.group(1)] = (m.group(3), m.group(4)) if m.group(3) is not None else (None, m.group(2))
rows = ["| id | round | change (one line) | first reaction | now caught by |", "|---|---|---|---|---|"]
def key(d):
    m = re.match(r'C(\d+)-m(\d+)', os.path.basename(d.rstrip('/')))
    return (int(m.group(1)), int(m.group(2)))
first = {}
fr = '/verif/seeded/first_reaction.json'
if os.path.exists(fr):
    first = json.load(open(fr))
for d in sorted(glob.glob('/verif/seeded/C*-m*/'), key=key):
    sid = os.path.basename(d.rstrip('/'))
    meta = json.load(open(d + 'meta.json'))
    summ = re.sub(r'\s+', ' ', meta.get('summary', '')).replace('|', '\\|')
    if len(summ) > 170:
        summ = summ[:167] + '...'
    rnd = str(meta.get("round", 1))
    props, rules = res.get(sid, (None, 'not run'))
    own = sid.split('-')[0]
    if props is None:
        now = rules
    else:
        rl = '; '.join(r.strip() for r in rules.split(';') if r.strip())
        now = (rl if own in props.split() else 'only by other properties: ' + props) .replace('|', '\\|')
    rows.append(f"| {sid} | {rnd} | {summ} | {first.get(sid, '')} | {now} |")
table = "\n".join(rows)
p = '/verif/DESIGN.md'
s = open(p).read()
b, e = '<!-- SEEDED-TABLE-BEGIN -->', '<!-- SEEDED-TABLE-END -->'
s = s[:s.index(b) + len(b)] + "\n" + table + "\n" + s[s.index(e):]
open(p, 'w').write(s)
print(len(rows) - 2, "rows")
