#!/bin/sh
# usage: try_mutant.sh <patch.diff> <property> [more properties...]
# applies the patch to /repo, runs the quick checks, reverts. Prints summary lines only.
patch="$1"; shift
cd /repo || exit 2
git apply --check "$patch" || { echo "PATCH DOES NOT APPLY: $patch"; exit 2; }
git apply "$patch"
for p in "$@"; do
  out=$(cd /verif && GOFLAGS=-mod=mod GOPROXY=off GOSUMDB=off GOTOOLCHAIN=local GOWORK=off bin/sverif check -p $p -verif /tmp/mutverif 2>&1)
  code=$?
  echo "== $p exit=$code"
  echo "$out" | grep -E "VIOLATED|UNDECIDED|load failed" | cut -c1-400 | head -8
done
git checkout -- . 
git status --short | grep -v '^??' 
