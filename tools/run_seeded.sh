#!/bin/sh
# Runs every seeded mutant under /verif/seeded against all registered checks (sverif all) and prints which properties fire.
# usage: run_seeded.sh [id-prefix]
export GOFLAGS=-mod=mod GOPROXY=off GOSUMDB=off GOTOOLCHAIN=local GOWORK=off
mkdir -p /tmp/mutverif; cp /verif/known_findings.json /tmp/mutverif/
cd /repo || exit 2
if ! git diff --quiet; then echo "/repo has uncommitted changes"; exit 2; fi
for d in /verif/seeded/$1*/; do
  id=$(basename $d)
  if [ -f $d/OBSOLETE ]; then echo "$id: OBSOLETE (no longer breaks the property on the repaired tree, see $d/OBSOLETE)"; continue; fi
  if git apply --check $d/patch.diff 2>/dev/null; then git apply $d/patch.diff
  elif git apply --3way $d/patch.diff >/dev/null 2>&1 && go build ./... 2>/dev/null; then git reset -q
  else git checkout -- . 2>/dev/null; git reset -q --hard HEAD >/dev/null; echo "$id: SKIP (patch no longer applies to the repaired tree)"; continue; fi
  out=$(/verif/bin/sverif all -verif /tmp/mutverif 2>&1)
  git checkout -- . ; git clean -fdq
  props=$(echo "$out" | grep -o "VIOLATION property=C[0-9]*" | sort -u | sed 's/VIOLATION property=//' | tr '\n' ' ')
  rules=$(echo "$out" | grep -E "VIOLATED|UNDECIDED" | grep -o " R-[A-Z0-9-]* \[[^]]*\]" | sort -u | head -4 | tr '\n' ';')
  if [ -z "$props" ]; then echo "$id: MISSED"; else echo "$id: caught by [$props] $rules"; fi
done
