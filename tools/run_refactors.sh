#!/bin/sh
# Applies every behaviour-preserving refactoring under /verif/refactors/<id>/patch.diff to /repo, runs all checks and
# undoes it. A check that fails on one of them is a false alarm of the machinery (or a documented shape sensitivity).
# usage: run_refactors.sh [id-prefix]
export GOFLAGS=-mod=mod GOPROXY=off GOSUMDB=off GOTOOLCHAIN=local GOWORK=off
mkdir -p /tmp/mutverif; cp /verif/known_findings.json /tmp/mutverif/
cd /repo || exit 2
if ! git diff --quiet; then echo "/repo has uncommitted changes"; exit 2; fi
for d in /verif/refactors/$1*/; do
  [ -f $d/patch.diff ] || continue
  id=$(basename $d)
  if git apply --check $d/patch.diff 2>/dev/null; then git apply $d/patch.diff
  else echo "$id: SKIP (patch no longer applies)"; continue; fi
  out=$(/verif/bin/sverif all -verif /tmp/mutverif 2>&1)
  git checkout -- . ; git clean -fdq
  props=$(echo "$out" | grep -o "VIOLATION property=C[0-9]*" | sort -u | sed 's/VIOLATION property=//' | tr '\n' ' ')
  rules=$(echo "$out" | grep -E "VIOLATED|UNDECIDED" | grep -o "\(VIOLATED\|UNDECIDED\) R-[A-Z0-9-]* \[[^]]*\]" | sort -u | head -6 | tr '\n' ';')
  if [ -z "$props" ]; then echo "$id: silent"; else echo "$id: ALARM [$props] $rules"; fi
done
