#!/usr/bin/env python3
"""stdin: VIOLATED/UNDECIDED lines of `sverif all` (rule names in them); stdout: the `VIOLATION property=Cxx` lines they
amount to, computed from the rule lists of the properties (bin/sverif props prints them)."""
import re, subprocess, sys, json
rules = set(re.findall(r" (R-[A-Z0-9-]+) \[([^\]]*)\]", sys.stdin.read()))
if not rules:
    sys.exit(0)
out = subprocess.run(["/verif/bin/sverif", "props"], capture_output=True, text=True).stdout
# lines: Cxx: R-A R-B:clause1,clause2 ...
for line in out.splitlines():
    m = re.match(r"(C\d+): (.*)", line)
    if not m:
        continue
    pid, specs = m.group(1), m.group(2).split()
    hit = False
    for spec in specs:
        rn, _, filt = spec.partition(":")
        for (r, key) in rules:
            if r != rn:
                continue
            if not filt:
                hit = True
                continue
            pos = [f for f in filt.split(",") if not f.startswith("!")]
            neg = [f[1:] for f in filt.split(",") if f.startswith("!")]
            def m1(f):
                return key == f or key.startswith(f + ":") or (f.endswith("*") and key.startswith(f[:-1]))
            if any(m1(f) for f in neg):
                continue
            if not pos or any(m1(f) for f in pos):
                hit = True
    if hit:
        print(f"VIOLATION property={pid}")
