#!/usr/bin/env python3
"""Generate /verif/MANIFEST.json from the property table below (single source of truth for the interface)."""
import json, os
V = "/verif"
props = [json.loads(l)["id"] for l in open(f"{V}/properties.jsonl")]
# property -> (technique, level text, level note, design ref)
claimed = json.load(open(f"{V}/tools/claims.json"))
env = "GOFLAGS=-mod=mod GOPROXY=off GOSUMDB=off GOTOOLCHAIN=local GOWORK=off"
checks = []
for p in props:
    if p not in claimed: continue
    c = claimed[p]
    checks.append({
        "property_id": p,
        "quick_cmd": f"{env} bin/sverif check -p {p} -tier quick",
        "thorough_cmd": f"{env} bin/sverif check -p {p} -tier thorough",
        "evidence_file": f"/verif/evidence/{p}.json",
        "replay_cmd_template": f"{env} bin/sverif replay {{path}}",
        "engine": "sverif",
        "level_claimed": {"category": "other", "text": c["text"], "design_ref": c.get("design_ref", "DESIGN.md section 5")},
        "level_note": c["note"],
        "technique": c["technique"],
    })
na = json.load(open(f"{V}/tools/not_applicable.json"))
m = {
    "version": 1,
    "setup_cmd": f"cd /verif/checker && {env} go build -o /verif/bin/sverif .",
    "hooks": {"guard": "verif", "enable": "none needed: static analysis reads /repo's source; checks load /repo with build tag 'verif' set so a hook file would be analysed too",
              "baseline_off_cmd": "cd /repo && GOFLAGS=-mod=mod go test -vet=off -count=1 ./...", "source_commits": [], "add_only": True},
    "engines": [{"name": "sverif", "path": "/verif/checker", "serves_properties": sorted(claimed.keys()),
                 "kind_free_text": "repository-specific static analyser (go/packages, go/types, typed AST, go/ssa dominators and dataflow, CHA/VTA call graph) producing per-rule obligations keyed by rule+construct; nothing of goawk is executed"}],
    "checks": checks,
    "not_applicable": [{"property_id": p, "reason": na.get(p, "check under construction (DESIGN.md section 5)")} for p in props if p not in claimed],
    "notes": "All checks decide structural necessary conditions of the property from /repo's current source (level 'other'); what each does and does not decide is in DESIGN.md section 5 and in evidence/<id>.json coverage.explanation. Genuine defects found and repaired are listed in known_findings.json ('fixed' entries) with demonstrations under demos/.",
}
json.dump(m, open(f"{V}/MANIFEST.json", "w"), indent=1)
print("claimed:", sorted(claimed.keys()))
