#!/bin/sh
# D26: needs an unparenthesised ?: as the last print argument followed by a > redirection.
# expected: nothing on stdout, file contains 2; before the fix: "2" on stdout and no file
rm -f /tmp/d26.out
"$1" 'BEGIN { print 1 ? 2 : 3 > "/tmp/d26.out" }'
echo "file: $(cat /tmp/d26.out 2>/dev/null || echo '(missing)')"
