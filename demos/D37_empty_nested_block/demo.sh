#!/bin/sh
# D37 (C01): a rule whose block contains only empty blocks does nothing; an END { {} } still makes the input be read.
# usage: demo.sh <goawk binary>   exit 0 = correct, 1 = the defect
g=$1; rc=0
out=$(echo x | $g '{ {} }')
[ -z "$out" ] || { echo "FAIL: '{ {} }' printed: $out"; rc=1; }
out=$(echo x | $g '{ ; }')
[ -z "$out" ] || { echo "FAIL: '{ ; }' printed: $out"; rc=1; }
$g 'END { {} }' /nonexistent/file 2>/dev/null && { echo "FAIL: END { {} } did not read the input (missing file not noticed)"; rc=1; }
[ $rc = 0 ] && echo PASS
exit $rc
