// D34 (C19): execShell appended the command text to Config.ShellCommand[1:] in place. When the
// caller's slice has spare capacity (it was built with append, say) concurrent interpreters that
// share the Program and the Config write the same backing array: a data race, and a command can
// be run with another goroutine's text.   Run: GOFLAGS=-mod=mod go run -race .
package main

import (
	"fmt"
	"strings"
	"sync"

	"github.com/benhoyt/goawk/interp"
	"github.com/benhoyt/goawk/parser"
)

func main() {
	shell := append(make([]string, 0, 8), "/bin/sh", "-c") // spare capacity
	var wg sync.WaitGroup
	wrong := 0
	var mu sync.Mutex
	for g := 0; g < 8; g++ {
		wg.Add(1)
		go func(g int) {
			defer wg.Done()
			src := fmt.Sprintf(`BEGIN { for (i = 0; i < 50; i++) { "echo %d" | getline x; close("echo %d"); if (x != %d) bad++ } print bad+0 }`, g, g, g)
			prog, err := parser.ParseProgram([]byte(src), nil)
			if err != nil {
				panic(err)
			}
			var out strings.Builder
			_, err = interp.ExecProgram(prog, &interp.Config{ShellCommand: shell, Output: &out})
			if err != nil {
				panic(err)
			}
			if strings.TrimSpace(out.String()) != "0" {
				mu.Lock()
				wrong++
				mu.Unlock()
			}
		}(g)
	}
	wg.Wait()
	fmt.Println("goroutines that saw another goroutine's command output:", wrong)
}
