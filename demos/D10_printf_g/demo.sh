#!/bin/sh
# D10: needs %g or %G without a precision and a value with more than 6 significant digits.
# expected (C printf): 0.333333 0.333333|  0.333333   before the fix: 0.3333333333333333 ...
"$1" 'BEGIN { printf "%g %G|%10g\n", 1/3, 1/3, 1/3 }'
