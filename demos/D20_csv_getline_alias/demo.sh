#!/bin/sh
# D20: needs CSV/TSV input mode and a getline into a variable from another stream whose line has more fields.
# expected: "x" then "|y|2"      before the fix: index-out-of-range panic in getField
printf 'a,b,c,d,e\n' > /tmp/d20.csv
printf 'x,y\n' | "$1" -i csv '{ print $1; getline z < "/tmp/d20.csv"; print $4 "|" $2 "|" NF }'
