#!/bin/sh
# D38 (C20): a regex literal with a backslash-newline inside a nested block must survive goawk -d.
# usage: demo.sh <goawk binary>   exit 0 = faithful, 1 = the defect
g=$1; t=$(mktemp -d)
printf 'BEGIN {\n  if (1) {\n    x = "a\\nb" ~ /a\\\nb/\n    print x\n  }\n}\n' > $t/p.awk
$g -d -f $t/p.awk > $t/printed.awk || { rm -rf $t; exit 2; }
$g -d -f $t/printed.awk > $t/printed2.awk
a=$($g -f $t/p.awk); b=$($g -f $t/printed.awk)
echo "original prints $a, printed form prints $b"
rc=0; [ "$a" = "$b" ] || rc=1
cmp -s $t/printed.awk $t/printed2.awk || { echo "printing is not idempotent"; rc=1; }
rm -rf $t; exit $rc
