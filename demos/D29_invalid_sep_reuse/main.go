// D29 (C02/C14): an invalid regex assigned to RS or FS is stored before it is compiled. The run
// ends with the error, but on a reused Interpreter the separator text stays while its compiled
// form is missing, and the next Execute dereferences a nil *regexp.Regexp.
package main

import (
	"fmt"
	"strings"

	"github.com/benhoyt/goawk/interp"
	"github.com/benhoyt/goawk/parser"
)

func try(name string, vars []string, src string) {
	defer func() {
		if r := recover(); r != nil {
			fmt.Printf("%s: second Execute PANICKED: %v\n", name, r)
		}
	}()
	prog, err := parser.ParseProgram([]byte(src), nil)
	if err != nil {
		panic(err)
	}
	in, _ := interp.New(prog)
	_, err = in.Execute(&interp.Config{Vars: vars, Stdin: strings.NewReader("a b\n"), Output: &strings.Builder{}})
	fmt.Printf("%s: first Execute: %v\n", name, err)
	out := &strings.Builder{}
	st, err := in.Execute(&interp.Config{Stdin: strings.NewReader("a b\nc d\n"), Output: out})
	fmt.Printf("%s: second Execute: status %d err %v output %q\n", name, st, err, out.String())
}

func main() {
	try("RS", []string{"RS", "[["}, `{ print $1 }`)
	try("FS", []string{"FS", "[["}, `{ print $1 }`)
}
