#!/bin/sh
# D19: `getline $2 <file` (needs: a getline with a field target other than $0, inside a larger expression)
# expected: "a X c" / 3 / 15     before the fix: "X" / 1 / 105
printf 'X\n' > /tmp/d19.txt
printf 'a b c\n' | "$1" '{ getline $2 < "/tmp/d19.txt"; print; print NF }'
printf 'a b c\n' | "$1" 'function f(a, b) { getline $2 < "/tmp/d19.txt"; return 5 } { x = 10 + f(100, 200); print x }'
