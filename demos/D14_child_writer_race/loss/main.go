// D14, second demonstration (no race detector needed): with Config.Output a *bytes.Buffer, `print | cmd` hands that
// buffer to os/exec, whose copier goroutine sits in bytes.Buffer.ReadFrom while the interpreter keeps printing into the
// same buffer. What the interpreter prints between the start of the command and the command's first output is
// overwritten: the line "b" is lost in most runs.
//
//	cd /verif/demos && GOFLAGS=-mod=mod go run ./D14_child_writer_race/loss
//
// prints how many of 30 runs delivered the four lines a, b, foo, 0 (in either order of b and foo) and how many lost "b".
package main

import (
	"bytes"
	"fmt"
	"strings"

	"github.com/benhoyt/goawk/interp"
	"github.com/benhoyt/goawk/parser"
)

func main() {
	src := `BEGIN { print "a"; print "foo" | "sleep 0.2; cat"; print "b"; r = close("sleep 0.2; cat"); print r }`
	prog, err := parser.ParseProgram([]byte(src), nil)
	if err != nil {
		panic(err)
	}
	lost, complete := 0, 0
	for i := 0; i < 30; i++ {
		var out bytes.Buffer
		in, _ := interp.New(prog)
		if _, err := in.Execute(&interp.Config{Output: &out, Stdin: bytes.NewReader(nil)}); err != nil {
			panic(err)
		}
		if strings.Contains(out.String(), "b\n") {
			complete++
		} else {
			lost++
			if lost == 1 {
				fmt.Printf("first lossy run delivered %q\n", out.String())
			}
		}
	}
	fmt.Printf("complete=%d lost-b=%d\n", complete, lost)
	if lost > 0 {
		fmt.Println("DEFECT: output printed by the program itself was lost")
	}
}
