package main

// D14: run with `go run -race`. The program pipes to a command that writes to the shared standard output
// while the program keeps printing to it.
import (
	"fmt"
	"os"

	"github.com/benhoyt/goawk/interp"
	"github.com/benhoyt/goawk/parser"
)

func main() {
	prog, err := parser.ParseProgram([]byte(`BEGIN { print "go" | "yes child | head -20000"; for (i = 0; i < 200000; i++) print "parent", i }`), nil)
	if err != nil {
		panic(err)
	}
	devnull, _ := os.OpenFile("/dev/null", os.O_WRONLY, 0)
	os.Stdout = devnull // the default Config.Output is a *bufio.Writer over os.Stdout
	_, err = interp.ExecProgram(prog, &interp.Config{Environ: []string{}})
	fmt.Fprintln(os.Stderr, "done, err =", err)
}
