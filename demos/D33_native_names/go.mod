module d33
go 1.23
require github.com/benhoyt/goawk v0.0.0
replace github.com/benhoyt/goawk => /repo
