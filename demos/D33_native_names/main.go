// D33 (C19): Compile filled the disassembler's table of native function names from ALL functions,
// AWK-defined ones included, although the two kinds are numbered separately. With an AWK function
// and a native function both at index 0 the entry depended on map iteration order, so two parses of
// the same source gave different Programs (and the disassembly usually named the wrong function).
package main

import (
	"bytes"
	"fmt"
	"strings"

	"github.com/benhoyt/goawk/parser"
)

func main() {
	src := `function f() {} BEGIN { g() }`
	cfg := &parser.ParserConfig{Funcs: map[string]any{"g": func() {}}}
	seen := map[string]int{}
	for i := 0; i < 200; i++ {
		prog, err := parser.ParseProgram([]byte(src), cfg)
		if err != nil {
			panic(err)
		}
		var buf bytes.Buffer
		prog.Disassemble(&buf)
		for _, l := range strings.Split(buf.String(), "\n") {
			if strings.Contains(l, "CallNative") {
				seen[strings.TrimSpace(l[strings.Index(l, "CallNative"):])]++
			}
		}
	}
	fmt.Println(seen) // repaired tree: map[CallNative g 0:200]
}
