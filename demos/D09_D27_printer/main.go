package main

import (
	"bufio"
	"fmt"
	"os"
	"reflect"
	"strings"

	"github.com/benhoyt/goawk/parser"
)

func main() {
	sc := bufio.NewScanner(os.Stdin)
	sc.Buffer(make([]byte, 1<<20), 1<<20)
	bad := 0
	for sc.Scan() {
		src := strings.ReplaceAll(sc.Text(), "\\N", "\n")
		p1, err := parser.ParseProgram([]byte(src), nil)
		if err != nil {
			continue
		}
		s1 := p1.String()
		p2, err := parser.ParseProgram([]byte(s1), nil)
		if err != nil {
			bad++
			fmt.Printf("REPARSE-FAIL src=%q printed=%q err=%v\n", src, s1, err)
			continue
		}
		var d1, d2 strings.Builder
		dump(reflect.ValueOf(&p1.ResolvedProgram.Program), &d1)
		dump(reflect.ValueOf(&p2.ResolvedProgram.Program), &d2)
		if d1.String() != d2.String() {
			bad++
			fmt.Printf("TREE-DIFF src=%q printed=%q\n  t1=%s\n  t2=%s\n", src, s1, d1.String(), d2.String())
		}
		s2 := p2.String()
		if s1 != s2 {
			bad++
			fmt.Printf("NOT-FIXPOINT src=%q s1=%q s2=%q\n", src, s1, s2)
		}
	}
	fmt.Println("bad:", bad)
}
