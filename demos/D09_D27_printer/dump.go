package main

import (
	"fmt"
	"reflect"
	"strings"
)

// dump renders a tree without positions; GroupingExpr is transparent when skipGroup.
func dump(v reflect.Value, sb *strings.Builder) {
	switch v.Kind() {
	case reflect.Ptr, reflect.Interface:
		if v.IsNil() {
			sb.WriteString("nil")
			return
		}
		dump(v.Elem(), sb)
	case reflect.Struct:
		t := v.Type()
		if t.Name() == "Position" {
			return
		}
		if t.Name() == "GroupingExpr" {
			dump(v.Field(0), sb)
			return
		}
		sb.WriteString("(" + t.Name())
		for i := 0; i < v.NumField(); i++ {
			if t.Field(i).Type.Name() == "Position" {
				continue
			}
			sb.WriteString(" " + t.Field(i).Name + "=")
			dump(v.Field(i), sb)
		}
		sb.WriteString(")")
	case reflect.Slice:
		if v.Len() == 0 {
			sb.WriteString("[]")
			return
		}
		sb.WriteString("[")
		for i := 0; i < v.Len(); i++ {
			if i > 0 {
				sb.WriteString(" ")
			}
			dump(v.Index(i), sb)
		}
		sb.WriteString("]")
	case reflect.Float64:
		fmt.Fprintf(sb, "%.6g", v.Float())
	default:
		fmt.Fprintf(sb, "%#v", v.Interface())
	}
}
