package main

// usage: chunk MODE(csv|"") RS PROG chunk1 chunk2 ...   -- feeds the chunks as separate Reads
import (
	"bytes"
	"fmt"
	"io"
	"os"

	"github.com/benhoyt/goawk/interp"
	"github.com/benhoyt/goawk/parser"
)

type chunkReader struct{ chunks [][]byte }

func (c *chunkReader) Read(p []byte) (int, error) {
	if len(c.chunks) == 0 {
		return 0, io.EOF
	}
	n := copy(p, c.chunks[0])
	if n < len(c.chunks[0]) {
		c.chunks[0] = c.chunks[0][n:]
	} else {
		c.chunks = c.chunks[1:]
	}
	return n, nil
}

func main() {
	mode, rs, src := os.Args[1], os.Args[2], os.Args[3]
	var chunks [][]byte
	for _, a := range os.Args[4:] {
		chunks = append(chunks, []byte(a))
	}
	prog, err := parser.ParseProgram([]byte(src), nil)
	if err != nil {
		panic(err)
	}
	var out bytes.Buffer
	cfg := &interp.Config{Stdin: &chunkReader{chunks}, Output: &out, Environ: []string{}}
	if mode == "csv" {
		cfg.InputMode = interp.CSVMode
	} else {
		cfg.Vars = []string{"RS", rs}
	}
	_, err = interp.ExecProgram(prog, cfg)
	fmt.Printf("%q err=%v\n", out.String(), err)
}
