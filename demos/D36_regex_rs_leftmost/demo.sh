#!/bin/sh
# D36 (C07): records must not depend on how the input bytes arrive. RS="abcd|b": the input xabcdy read as
# "xabc" + "dy" must give the same records as in one read.
# usage: demo.sh <goawk binary>   exit 0 = chunking-independent, 1 = the defect
g=$1
prog='BEGIN{RS="abcd|b"}{printf "%d:[%s]RT=[%s] ", NR, $0, RT}'
a=$(printf 'xabcdy' | $g "$prog")
b=$( (printf 'xabc'; sleep 0.3; printf 'dy') | $g "$prog")
echo "one read : $a"; echo "two reads: $b"
[ "$a" = "$b" ]
