#!/bin/sh
# D2/D2b: needs a number ending in a dangling exponent ("1e") directly before a line break, and a later syntax error.
# expected: error reported at 4:6 with the source line shown; before the fixes: position 5:6 (outside the 4-line source) and a slice-bounds panic in the CLI
printf '1e\n\n\n y = *' > /tmp/d2.awk
"$1" -f /tmp/d2.awk
