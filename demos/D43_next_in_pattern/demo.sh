#!/bin/sh
# D43 (C11): next / nextfile executed by a function that a pattern calls abandon the record / file.
# usage: demo.sh <goawk binary>   exit 0 = correct, 1 = the defect
g=$1; rc=0
out=$(printf '1\n2\n3\n' | $g 'function f() { if ($1==2) next; return 1 } f() { print "x" $1 } { print "y" $1 }' 2>&1 | tr '\n' ' ')
[ "$out" = "x1 y1 x3 y3 " ] || { echo "FAIL next in a pattern: [$out]"; rc=1; }
out=$(printf 'a\nb\nc\n' | $g 'function f() { nextfile } NR==1,f() { print "x" } { print "y" }' 2>&1; echo "rc=$?")
[ "$out" = "rc=0" ] || { echo "FAIL nextfile in a range pattern: [$out]"; rc=1; }
[ $rc = 0 ] && echo PASS
exit $rc
