#!/bin/sh
# D18: needs coverage mode and a program that uses the coverage array's name as a scalar.
# expected: a parse error message and exit status 1; before the fix: unrecovered panic
"$1" -coverprofile /tmp/d18.cov 'BEGIN{__COVER=1}'
