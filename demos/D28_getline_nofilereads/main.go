package main

import (
	"fmt"
	"os"
	"strings"

	"github.com/benhoyt/goawk/interp"
	"github.com/benhoyt/goawk/parser"
)

func main() {
	src := os.Args[1]
	prog, err := parser.ParseProgram([]byte(src), nil)
	if err != nil {
		fmt.Println("parse:", err)
		return
	}
	st, err := interp.ExecProgram(prog, &interp.Config{NoFileReads: true, Args: []string{"/etc/passwd"}, Stdin: strings.NewReader("")})
	fmt.Println("status", st, "err", err)
}
