#!/bin/sh
# D35 (C20): the printed form of `print ("cmd" | getline x, y)` must parse back to the same program.
# usage: demo.sh <goawk binary>   exit 0 = faithful, 1 = the defect
g=$1; t=$(mktemp -d)
printf 'BEGIN { print ("echo hi" | getline x, x) }\n' > $t/p.awk
$g -d -f $t/p.awk > $t/printed.awk || { echo "cannot print"; rm -rf $t; exit 2; }
a=$($g -f $t/p.awk 2>&1); b=$($g -f $t/printed.awk 2>&1)
cat $t/printed.awk
echo "original: $a"; echo "printed : $b"
rm -rf $t
[ "$a" = "$b" ]
