#!/bin/sh
# D11: needs a numeric argument beyond the int64 range.
# expected: 1e+30 / ello / error "field index too large"    before the fix: -9223372036854775808 / "" / silently 3
"$1" 'BEGIN { print int(1e30); print substr("hello", 2, 1e30) }'
"$1" 'BEGIN { $0="a b c"; $(1e30)="x"; print NF }'
