#!/bin/sh
# D16 (recorded, not repaired): NF keeps the raw assigned value instead of the number of fields.
# The existing suite pins this behaviour (interp_test.go: `BEGIN { NF = "3.14x"; print NF }` expects "3.14x",
# matching gawk), so a repair would not keep the unedited suite green.
# property C06 says "at every moment NF is the number of fields": expected 2, observed 2.7
"$1" 'BEGIN { $0="a b c"; NF=2.7; print NF; print $0 }'
