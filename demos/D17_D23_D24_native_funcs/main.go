package main

import (
	"fmt"
	"io"

	"github.com/benhoyt/goawk/interp"
	"github.com/benhoyt/goawk/parser"
)

type MyStr string
type MyInt int

func try(name string, f func()) {
	defer func() {
		if r := recover(); r != nil {
			fmt.Printf("%s: PANIC: %v\n", name, r)
		}
	}()
	f()
}

func main() {
	try("D17 non-function in Funcs", func() {
		_, err := parser.ParseProgram([]byte(`BEGIN { f(1) }`), &parser.ParserConfig{Funcs: map[string]interface{}{"f": 42}})
		fmt.Println("D17: err =", err)
	})
	try("D23 named kinds", func() {
		funcs := map[string]interface{}{"f": func(s MyStr) MyInt { return MyInt(len(s)) }}
		prog, err := parser.ParseProgram([]byte(`BEGIN { print f("abc") }`), &parser.ParserConfig{Funcs: funcs})
		if err != nil {
			fmt.Println("D23 parse:", err)
			return
		}
		_, err = interp.ExecProgram(prog, &interp.Config{Funcs: funcs, Output: io.Discard, Environ: []string{}})
		fmt.Println("D23: err =", err)
	})
	try("D24 Funcs missing at execution", func() {
		funcs := map[string]interface{}{"f": func(n int) int { return n + 1 }}
		prog, err := parser.ParseProgram([]byte(`BEGIN { print f(1) }`), &parser.ParserConfig{Funcs: funcs})
		if err != nil {
			fmt.Println("D24 parse:", err)
			return
		}
		_, err = interp.ExecProgram(prog, &interp.Config{Output: io.Discard, Environ: []string{}})
		fmt.Println("D24: err =", err)
	})
}
