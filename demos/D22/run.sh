#!/bin/sh
# D22: with coverage on, `{}` (explicit empty action) printed every record.
# usage: run.sh <goawk-binary>
G=${1:-goawk}
printf 'a\nb\n' | $G '{}' > /tmp/d22_plain.out
printf 'a\nb\n' | $G -coverprofile /tmp/d22_cov.prof '{}' > /tmp/d22_cov.out
if cmp -s /tmp/d22_plain.out /tmp/d22_cov.out; then echo "same output (fixed)"; else echo "DIFFERENT output (defect):"; cat /tmp/d22_cov.out; fi
rm -f /tmp/d22_plain.out /tmp/d22_cov.out /tmp/d22_cov.prof
