#!/bin/sh
# D40 (C13): a command that leaves a background process behind must not cost the program its later output.
# usage: demo.sh <goawk binary>   exit 0 = correct, 1 = the defect
g=$1; t=$(mktemp)
$g 'BEGIN { system("sleep 1 &"); print "done" }' > $t 2>/dev/null; rc=$?
out=$(cat $t); rm -f $t
echo "exit status $rc, output: [$out]"
[ $rc = 0 ] && [ "$out" = "done" ]
