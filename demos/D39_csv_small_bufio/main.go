package main

import (
	"bufio"
	"bytes"
	"fmt"

	"github.com/benhoyt/goawk/interp"
	"github.com/benhoyt/goawk/parser"
)

func main() {
	prog, err := parser.ParseProgram([]byte(`BEGIN { print "a", "b c"; print "d", "e" }`), nil)
	if err != nil {
		panic(err)
	}
	for _, size := range []int{1024, 4096} {
		var buf bytes.Buffer
		w := bufio.NewWriterSize(&buf, size)
		_, err = interp.ExecProgram(prog, &interp.Config{Output: w, OutputMode: interp.CSVMode})
		w.Flush()
		fmt.Printf("size=%d err=%v out=%q\n", size, err, buf.String())
	}
}
