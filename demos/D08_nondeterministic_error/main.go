package main

import (
	"fmt"

	"github.com/benhoyt/goawk/parser"
)

func main() {
	src := `function a(x) { x[1]=1; x=2 }
function b(y) { y[1]=1; y=2 }
function c(z) { z[1]=1; z=2 }
BEGIN { print 1 }`
	seen := map[string]int{}
	for i := 0; i < 200; i++ {
		_, err := parser.ParseProgram([]byte(src), nil)
		seen[fmt.Sprint(err)]++
	}
	for k, v := range seen {
		fmt.Println(v, k)
	}
}
