#!/bin/sh
# D1: needs RS assigned a single byte that is not valid UTF-8. expected: 1: a / 2: b / 3: c ; before the fix: panic in regexp.MustCompile
printf 'a\xffb\xffc' | "$1" 'BEGIN { RS="\xff" } { print NR": "$0 }'
