package main

import (
	"bytes"
	"fmt"
	"strings"

	"github.com/benhoyt/goawk/interp"
	"github.com/benhoyt/goawk/parser"
)

func run(in *interp.Interpreter, cfg *interp.Config) {
	var out bytes.Buffer
	cfg.Output = &out
	cfg.Error = &out
	st, err := in.Execute(cfg)
	fmt.Printf("status=%d err=%v out=%q\n", st, err, out.String())
}

func main() {
	prog, err := parser.ParseProgram([]byte(`{ print @"name" }`), nil)
	if err != nil {
		panic(err)
	}
	in, _ := interp.New(prog)
	run(in, &interp.Config{Stdin: strings.NewReader("name,age\nBob,3\n"), InputMode: interp.CSVMode, CSVInput: interp.CSVInputConfig{Header: true}, Environ: []string{}})
	in.ResetVars()
	fmt.Println("-- reused, no header:")
	run(in, &interp.Config{Stdin: strings.NewReader("Zed,9\n"), InputMode: interp.CSVMode, Environ: []string{}})
	fresh, _ := interp.New(prog)
	fmt.Println("-- fresh, no header:")
	run(fresh, &interp.Config{Stdin: strings.NewReader("Zed,9\n"), InputMode: interp.CSVMode, Environ: []string{}})
}
