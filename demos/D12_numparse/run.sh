#!/bin/sh
# D12: the recogniser (parseFloat) and the converter (parseFloatPrefix) disagreed.
# usage: run.sh <goawk-binary>; expected on the repaired tree: "0 0" then "0 inf 1"
G=${1:-goawk}
printf '\302\2401\n' | $G -F, '{ print ($1==1), $1+0 }'      # NBSP then 1: was "1 0"
printf '1e400\n'     | $G '{ print ($1<5), $1+0, ($1==$1+0) }' # was "1 inf 0"
