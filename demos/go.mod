module demo
go 1.20
require github.com/benhoyt/goawk v0.0.0
replace github.com/benhoyt/goawk => /repo
