#!/bin/sh
# D13: needs a NaN operand in an if/while/for/?: condition written without extra parentheses.
# expected: no-fused / no-plain / "field: no"   before the fix: yes-fused / no-plain / "field: yes"
"$1" 'BEGIN { x = log(-1); if (x < 1) print "yes-fused"; else print "no-fused"; if ((x < 1)) print "yes-plain"; else print "no-plain" }' 2>/dev/null
echo 'nan 1' | "$1" '{ if ($1 < $2) print "field: yes"; else print "field: no" }'
