#!/bin/sh
# D3: needs CSV input starting with a UTF-8 byte-order mark. expected "1: [a,b] a"; before the fix $0 of record 1 was "a,b\nc,d"
printf '\xef\xbb\xbfa,b\nc,d\n' | "$1" -i csv '{ print NR": ["$0"] "$1 }'
