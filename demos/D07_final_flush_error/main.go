package main

import (
	"bufio"
	"errors"
	"fmt"
	"io"
	"strings"

	"github.com/benhoyt/goawk/interp"
	"github.com/benhoyt/goawk/parser"
)

type failWriter struct{ n int }

func (f *failWriter) Write(p []byte) (int, error) {
	if f.n <= 0 {
		return 0, errors.New("disk full")
	}
	f.n -= len(p)
	return len(p), nil
}

type closeTracker struct {
	io.Reader
	closed bool
}

func (c *closeTracker) Close() error { c.closed = true; return nil }

func main() {
	prog, _ := parser.ParseProgram([]byte(`BEGIN { print "hello" }`), nil)
	out := bufio.NewWriterSize(&failWriter{}, 4096)
	st, err := interp.ExecProgram(prog, &interp.Config{Output: out, Environ: []string{}})
	fmt.Printf("D7: status=%d err=%v (expected a non-nil error: nothing reached the output)\n", st, err)

	prog2, _ := parser.ParseProgram([]byte(`{ print }`), nil)
	in := &closeTracker{Reader: strings.NewReader("a\n")}
	_, err = interp.ExecProgram(prog2, &interp.Config{Stdin: in, Output: io.Discard, Environ: []string{}})
	fmt.Printf("D21: caller's Stdin closed by the interpreter: %v (expected false) err=%v\n", in.closed, err)
}
